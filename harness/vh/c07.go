package main

// C07 — closing a subscope loses nothing recorded before it and harms no
// other scope. Application goroutines {obtain by spelling, record, Close,
// obtain again} interleaved with report passes, under the schedule controller
// (yield points in Subscope, removeWithRLock and the report pass).

import (
	"encoding/json"
	"fmt"
	"strings"
	"sync"
	"sync/atomic"

	tally "github.com/uber-go/tally/v4"
)

// c07Exec runs a registry case. complete: extend the schedule until every
// thread has finished, then run one final controlled report pass.
func c07Exec(c *regCase, complete bool) (out regOut, enabled []int) {
	r := newRegRun(c)
	r.install()
	defer func() {
		r.uninstall()
		r.closer.Close()
	}()
	func() {
		defer func() {
			if p := recover(); p != nil {
				r.out.Panic = fmt.Sprint(p)
			}
		}()
		for _, prog := range c.Progs {
			r.ctl.Go(r.app(prog))
		}
		for _, n := range c.Passes {
			r.ctl.Go(r.passes(n))
		}
		nmain := r.ctl.N()
		for _, i := range c.Sched {
			if i < nmain {
				r.step(i)
			}
		}
		for i := 0; i < nmain; i++ {
			if !r.ctl.Done(i) {
				enabled = append(enabled, i)
			}
		}
		if !complete {
			r.ctl.Drain()
			return
		}
		for guard := 0; guard < 10000 && !r.ctl.AllDone(); guard++ {
			for i := 0; i < nmain; i++ {
				r.step(i)
			}
		}
		f := r.ctl.Go(r.passes(1))
		for guard := 0; guard < 10000 && !r.ctl.Done(f); guard++ {
			r.step(f)
		}
	}()
	r.collect()
	return r.out, enabled
}

func c07Term(idx int, c *regCase, out *regOut) string {
	// params: [cached; san; nspell; san-table...]
	par := []int64{b2i(c.Cached), b2i(c.San), int64(len(c.Spell))}
	par = append(par, regSanTable(c)...)
	var in []Ev
	for _, prog := range c.Progs {
		var ops []int64
		for _, o := range prog {
			switch o.Op {
			case "get":
				ops = append(ops, 1, int64(o.K+1))
			case "inc":
				ops = append(ops, 2, 0)
			case "close":
				ops = append(ops, 3, 0)
			}
		}
		in = append(in, Ev{K: 40, I: ops})
	}
	for _, n := range c.Passes {
		in = append(in, Ev{K: 41, I: []int64{int64(n)}})
	}
	in = append(in, Ev{K: 41, I: []int64{1}})
	s := make([]int64, 0, 2*len(out.Sched))
	for i, v := range out.Sched {
		s = append(s, int64(v), out.Choices[i])
	}
	in = append(in, Ev{K: 42, I: s})
	var objs []int64
	for _, o := range out.Objs {
		objs = append(objs, o.Applied, o.Delivered)
	}
	obs := []Ev{{K: 43, I: out.Labels}, {K: 45, I: out.Gets}, {K: 46, I: objs}}
	return gcase(idx, par, in, obs)
}

var c07Spellings = []B{"a-b", "a_b", "a.b", "x", "y-", "y_"}

func c07Gen(r *Rng, thorough bool) regCase {
	c := regCase{Cached: r.Bool(), Shards: 1, San: r.Chance(75)}
	ns := r.Range(1, 4)
	perm := []int{0, 1, 2, 3, 4, 5}
	for i := range perm {
		j := i + r.Intn(len(perm)-i)
		perm[i], perm[j] = perm[j], perm[i]
	}
	for i := 0; i < ns; i++ {
		c.Spell = append(c.Spell, c07Spellings[perm[i]])
	}
	nth := r.Range(1, 3)
	for t := 0; t < nth; t++ {
		var prog []regOp
		prog = append(prog, regOp{Op: "get", K: r.Intn(ns)})
		for j, nj := 0, r.Range(1, 7); j < nj; j++ {
			switch x := r.Intn(10); {
			case x < 4:
				prog = append(prog, regOp{Op: "inc"})
			case x < 6:
				prog = append(prog, regOp{Op: "close"})
			default:
				prog = append(prog, regOp{Op: "get", K: r.Intn(ns)})
			}
		}
		c.Progs = append(c.Progs, prog)
	}
	for i, ni := 0, r.Range(0, 2); i < ni; i++ {
		c.Passes = append(c.Passes, r.Range(1, 2))
	}
	nt := len(c.Progs) + len(c.Passes)
	for j := 0; j < 60; j++ {
		c.Sched = append(c.Sched, r.Intn(nt))
	}
	return c
}

func init() {
	props["C07"] = func(ctx *Ctx) {
		ctx.Header("RegistryCorr")
		ctx.Res.Rule = "case = (spellings of tag values and whether a sanitizer merges them, programs of application goroutines over {obtain spelling, record, Close}, passes per reporting goroutine, reporter flavour, schedule over the registry's yield points); every run ends with one complete report pass; non-trivial = some scope was closed and an identity obtained again, or two threads interleaved inside Subscope / a report pass; distinct by (case, executed schedule)"
		nsched := 0
		one := func(c *regCase) {
			out, _ := c07Exec(c, true)
			fail := regPredicate(&out)
			key := ""
			closes, gets := 0, 0
			for _, p := range c.Progs {
				for _, o := range p {
					if o.Op == "close" {
						closes++
					}
					if o.Op == "get" {
						gets++
					}
				}
			}
			inter := false
			for i := 1; i < len(out.Sched); i++ {
				if out.Sched[i] != out.Sched[i-1] && out.Labels[i-1] > 0 {
					inter = true
				}
			}
			if (closes > 0 && gets > 1) || inter {
				key = hashOf([]interface{}{c.Spell, c.Progs, c.Passes, c.Cached, c.San, out.Sched})
			}
			cc := *c
			cc.Sched = out.Sched
			idx := ctx.Res.Evaluations
			term := ""
			if c.Shards <= 1 && !out.Ambiguous {
				term = c07Term(idx, c, &out)
			}
			ctx.Case(cc, term, fmt.Sprintf("threads=%d+%d/san=%v/shards=%d", len(c.Progs), len(c.Passes), c.San, c.Shards), key)
			nsched++
			if out.Blocked > 0 {
				ctx.Res.Histogram["runs_with_blocked_steps"]++
			}
			if fail != "" {
				ctx.Fail("recorded_before_close_is_delivered_once_and_live_scopes_stay", fail, cc, out)
			}
		}
		if ctx.Replay != nil {
			var ip struct {
				Inert bool `json:"inert_stream"`
			}
			if json.Unmarshal(ctx.Replay, &ip) == nil && ip.Inert {
				var ic c07InertCase
				if err := json.Unmarshal(ctx.Replay, &ic); err != nil {
					fatal(err)
				}
				f := c07Inert(&ic)
				ctx.Case(ic, "", "derived-from-closed-scope", "")
				if f != "" {
					ctx.Fail("scopes_derived_from_a_closed_scope_are_inert", f, ic, nil)
				}
				return
			}
			var ap struct {
				API    bool `json:"api_storm_in_child_process"`
				Rounds int  `json:"rounds"`
			}
			if json.Unmarshal(ctx.Replay, &ap) == nil && ap.API {
				for k := 0; k < 5 && len(ctx.Res.Failures) == 0; k++ {
					apiStorm(ctx, ap.Rounds, "no_panic_no_deadlock")
				}
				return
			}
			var sp struct {
				Storm  bool `json:"close_storm"`
				Cached bool `json:"cached"`
				G      int  `json:"goroutines"`
				Rounds int  `json:"rounds"`
			}
			if json.Unmarshal(ctx.Replay, &sp) == nil && sp.Storm {
				ctx.Case(sp, "", "concurrent-close-of-one-subscope", "")
				for k := 0; k < 10; k++ {
					if f := c07CloseStorm(sp.Rounds, sp.G, sp.Cached); f != "" {
						ctx.Fail("closing_twice_is_harmless_no_panic", f, sp, nil)
						return
					}
				}
				return
			}
			var ak struct {
				A      bool `json:"all_kinds_before_close"`
				Cached bool `json:"cached"`
				How    int  `json:"dropped_how"`
			}
			if json.Unmarshal(ctx.Replay, &ak) == nil && ak.A {
				ctx.Case(ak, "", "all-kinds-recorded-before-close", "")
				if f := c07Kinds(ak.Cached, ak.How); f != "" {
					ctx.Fail("recorded_before_close_is_delivered_once_and_live_scopes_stay", f, ak, nil)
				}
				return
			}
			var cl struct {
				Closer bool `json:"closable_reporter_stays_open"`
				Cached bool `json:"cached"`
			}
			if json.Unmarshal(ctx.Replay, &cl) == nil && cl.Closer {
				ctx.Case(cl, "", "closable-reporter-stays-open", "")
				if f := c07CloserStays(cl.Cached); f != "" {
					ctx.Fail("closing_a_scope_never_affects_another", f, cl, nil)
				}
				return
			}
			var fl struct {
				InFlight bool `json:"close_during_stalled_delivery"`
				Cached   bool `json:"cached"`
				Shape    int  `json:"shape"`
			}
			if json.Unmarshal(ctx.Replay, &fl) == nil && fl.InFlight {
				ctx.Case(fl, "", "close-during-stalled-delivery", "")
				if f := c07InFlight(fl.Cached, fl.Shape); f != "" {
					ctx.Fail("recorded_before_close_is_delivered_once_and_live_scopes_stay", f, fl, nil)
				}
				return
			}
			var c regCase
			if err := json.Unmarshal(ctx.Replay, &c); err != nil {
				fatal(err)
			}
			one(&c)
			return
		}
		// "none of this can panic or deadlock": first of all the whole scope API at once (subscopes closed
		// and obtained again while their handles are in use, report passes, snapshots) in a child process -
		// a racing map or a deadlock ends the child, not the harness
		apiStorm(ctx, ctx.N(4000, 30000), "no_panic_no_deadlock")
		if len(ctx.Res.Failures) > 0 {
			return
		}
		for _, raw := range ctx.CorpusCases() {
			var c regCase
			if json.Unmarshal(raw, &c) == nil {
				one(&c)
			}
		}
		// sequential alias histories over every shard count of interest
		for _, sh := range []int{1, 2, 16} {
			for _, cached := range []bool{false, true} {
				c := regCase{Cached: cached, Shards: sh, San: true, Spell: []B{"a-b", "a_b"},
					Progs: [][]regOp{{{Op: "get", K: 0}, {Op: "inc"}, {Op: "close"}, {Op: "get", K: 1}, {Op: "inc"}, {Op: "get", K: 0}, {Op: "inc"}, {Op: "get", K: 1}, {Op: "inc"}, {Op: "inc"}}}}
				one(&c)
			}
		}
		n := ctx.N(500, 5000)
		for k := 0; k < n; k++ {
			c := c07Gen(ctx.R, ctx.Thorough())
			if k%5 == 4 {
				c.Shards = []int{2, 16}[ctx.R.Intn(2)]
			}
			one(&c)
		}
		ctx.Res.Schedules = nsched
		// scopes derived from a closed scope are inert; closing twice is harmless (sequential,
		// direct predicate only)
		ni := ctx.N(150, 4000)
		for k := 0; k < ni; k++ {
			sc := c07InertGen(ctx.R)
			f := c07Inert(&sc)
			ctx.Case(sc, "", "derived-from-closed-scope", "")
			if f != "" {
				ctx.Fail("scopes_derived_from_a_closed_scope_are_inert", f, sc, nil)
			}
		}
		// closing and dropping one scope of a tagged tree leaves every other scope as it was
		for k := 0; k < 24; k++ {
			cs := map[string]interface{}{"others_stream": true, "cached": k%2 == 1, "dropped_by_pass": k%4 < 2, "victim": k / 4}
			ctx.Case(cs, "", "close-does-not-affect-other-scopes", "")
			if f := c07Others(k%2 == 1, k%4 < 2, k/4); f != "" {
				ctx.Fail("closing_a_scope_never_affects_another", f, cs, nil)
			}
		}
		// every kind of metric of a closed subscope is delivered once
		for k := 0; k < 6; k++ {
			cs := map[string]interface{}{"all_kinds_before_close": true, "cached": k%2 == 1, "dropped_how": k / 2}
			ctx.Case(cs, "", "all-kinds-recorded-before-close", "")
			if f := c07Kinds(k%2 == 1, k/2); f != "" {
				ctx.Fail("recorded_before_close_is_delivered_once_and_live_scopes_stay", f, cs, nil)
			}
		}
		// the reporter shared by all scopes implements io.Closer: a subscope's Close leaves it open
		for k := 0; k < 2; k++ {
			cs := map[string]interface{}{"closable_reporter_stays_open": true, "cached": k == 1}
			ctx.Case(cs, "", "closable-reporter-stays-open", "")
			if f := c07CloserStays(k == 1); f != "" {
				ctx.Fail("closing_a_scope_never_affects_another", f, cs, nil)
			}
		}
		// record + Close while a pass is stalled inside the delivery of that very scope
		for k := 0; k < 6; k++ {
			cs := map[string]interface{}{"close_during_stalled_delivery": true, "cached": k%2 == 1, "shape": k / 2}
			ctx.Case(cs, "", "close-during-stalled-delivery", "")
			if f := c07InFlight(k%2 == 1, k/2); f != "" {
				ctx.Fail("recorded_before_close_is_delivered_once_and_live_scopes_stay", f, cs, nil)
			}
		}
		// Close called on one subscope by several goroutines at the same moment (uncontrolled)
		for k := 0; k < ctx.N(4, 60); k++ {
			cs := map[string]interface{}{"close_storm": true, "cached": k%2 == 1, "goroutines": 4 + 4*(k/2%2), "rounds": 1500}
			f := c07CloseStorm(1500, 4+4*(k/2%2), k%2 == 1)
			ctx.Case(cs, "", "concurrent-close-of-one-subscope", "")
			if f != "" {
				ctx.Fail("closing_twice_is_harmless_no_panic", f, cs, nil)
				break
			}
		}
	}
}

// c07Others: "Closing a scope never affects any other scope": a tagged root, children derived with and
// without tags of their own (a child without new tags may share its parent's tag map), siblings and
// grandchildren; one of them is closed and dropped (by a pass or by asking for it again); afterwards
// every other scope still delivers under its own name and tags, and scopes derived later too.
func c07Others(cached, viaPass bool, victim int) (fail string) {
	defer func() {
		if p := recover(); p != nil {
			fail = fmt.Sprintf("panic: %v", p)
		}
	}()
	log := &Log{}
	opts := tally.ScopeOptions{OmitCardinalityMetrics: true, Tags: map[string]string{"service": "svc", "env": "e"}, Prefix: "r"}
	if cached {
		opts.CachedReporter = &RecCached{L: log, Caps: caps{true, true}}
	} else {
		opts.Reporter = &RecReporter{L: log, Caps: caps{true, true}}
	}
	root, closer := tally.VerifNewRootScope(opts, 0, 2)
	defer closer.Close()
	type sc struct {
		s    tally.Scope
		name string
		tags string
	}
	base := "env=e,service=svc"
	withk := "env=e,k=v,service=svc"
	mk := func() []sc {
		a := root.SubScope("a")
		return []sc{
			{root, "r.", base},
			{a, "r.a.", base},
			{root.SubScope("b"), "r.b.", base},
			{a.SubScope("x"), "r.a.x.", base},
			{root.Tagged(map[string]string{"k": "v"}), "r.", withk},
			{a.Tagged(map[string]string{}), "r.a.", base},
			{root.Tagged(map[string]string{"k": "v"}).SubScope("y"), "r.y.", withk},
		}
	}
	scs := mk()
	for i, x := range scs {
		x.s.Counter(fmt.Sprintf("m%d", i)).Inc(1)
	}
	v := scs[1+victim%(len(scs)-1)]
	v.s.(interface{ Close() error }).Close()
	if viaPass {
		tally.VerifReportOnce(root)
	} else {
		mk() // asks for every scope again: the closed one is reported, dropped and replaced
	}
	scs2 := mk()
	for i, x := range scs2 {
		x.s.Counter(fmt.Sprintf("n%d", i)).Inc(1)
		x.s.Gauge(fmt.Sprintf("g%d", i)).Update(2)
	}
	late := root.SubScope("late").Tagged(map[string]string{"z": "1"})
	late.Counter("l").Inc(1)
	tally.VerifReportOnce(root)
	tally.VerifReportOnce(root)
	want := map[string]string{"r.late.l": base + ",z=1"}
	for i, x := range scs {
		want[fmt.Sprintf("%sm%d", x.name, i)] = x.tags
		want[fmt.Sprintf("%sn%d", x.name, i)] = x.tags
		want[fmt.Sprintf("%sg%d", x.name, i)] = x.tags
	}
	seen := map[string]bool{}
	for _, e := range log.Snapshot() {
		if (e.K == 1 || e.K == 2 || e.K == 11 || e.K == 12) && len(e.S) >= 1 {
			var kv []string
			for j := 1; j+1 < len(e.S); j += 2 {
				kv = append(kv, e.S[j]+"="+e.S[j+1])
			}
			got := strings.Join(kv, ",")
			w, ok := want[e.S[0]]
			if !ok {
				return fmt.Sprintf("after closing %q: a delivery under the unknown name %q (tags %q)", v.name, e.S[0], got)
			}
			if got != w {
				return fmt.Sprintf("after closing and dropping the scope %q{%s}: %q was delivered with tags {%s}, expected {%s}", v.name, v.tags, e.S[0], got, w)
			}
			seen[e.S[0]] = true
		}
	}
	for n := range want {
		if !seen[n] {
			return fmt.Sprintf("after closing and dropping the scope %q{%s}: nothing was delivered under %q", v.name, v.tags, n)
		}
	}
	return ""
}

// c07CloseStorm: "closing twice is harmless ... none of this can panic", also when the Close calls on
// one subscope come from several goroutines at the same moment (the test-and-set inside Close has no
// yield point, so only the runtime's own scheduling can overlap two of them). Each round: record on a
// fresh subscope, G goroutines behind a spin barrier call Close on it, one report pass; nothing may
// panic and what was recorded must be delivered once.
func c07CloseStorm(rounds, G int, cached bool) string {
	log := &Log{}
	opts := tally.ScopeOptions{OmitCardinalityMetrics: true}
	if cached {
		opts.CachedReporter = &RecCached{L: log, Caps: caps{true, true}}
	} else {
		opts.Reporter = &RecReporter{L: log, Caps: caps{true, true}}
	}
	root, closer := tally.VerifNewRootScope(opts, 0, 2)
	defer closer.Close()
	for r := 0; r < rounds; r++ {
		sub := root.Tagged(map[string]string{"round": fmt.Sprint(r)})
		sub.Counter("c").Inc(3)
		cl, ok := sub.(interface{ Close() error })
		if !ok {
			return "a subscope cannot be closed"
		}
		var arrived int32
		var wg sync.WaitGroup
		var mu sync.Mutex
		panicked := ""
		for g := 0; g < G; g++ {
			wg.Add(1)
			go func() {
				defer wg.Done()
				defer func() {
					if p := recover(); p != nil {
						mu.Lock()
						panicked = fmt.Sprint(p)
						mu.Unlock()
					}
				}()
				atomic.AddInt32(&arrived, 1)
				for atomic.LoadInt32(&arrived) < int32(G) {
				}
				cl.Close()
			}()
		}
		wg.Wait()
		if panicked != "" {
			return fmt.Sprintf("round %d: %d goroutines called Close on the same subscope at the same moment: panic: %s", r, G, panicked)
		}
		if r%64 == 63 || r == rounds-1 {
			tally.VerifReportOnce(root)
		}
	}
	var sum int64
	for _, e := range log.Snapshot() {
		switch e.K {
		case 1:
			sum += e.I[0]
		case 21:
			sum += e.I[1]
		}
	}
	if sum != int64(3*rounds) {
		return fmt.Sprintf("%d subscopes were closed by %d goroutines at once each after recording 3: %d delivered in total, expected %d", rounds, G, sum, 3*rounds)
	}
	return ""
}

// c07InertCase: a parent (SubScope or Tagged of the root), children derived from it before its
// Close (some of them by the same derivation that is repeated afterwards), and derivations from
// the closed parent afterwards.
type c07InertCase struct {
	Inert      bool  `json:"inert_stream"`
	Cached     bool  `json:"cached"`
	San        bool  `json:"san"`
	ParentTag  bool  `json:"parent_tagged"`
	Before     []int `json:"before"` // child derivations made before the Close (index into the derivation pool)
	After      []int `json:"after"`  // child derivations made after it
	CloseTwice bool  `json:"close_twice"`
	PassFirst  bool  `json:"pass_between"`
}

func c07InertGen(r *Rng) c07InertCase {
	c := c07InertCase{Inert: true, Cached: r.Bool(), San: r.Bool(), ParentTag: r.Bool(), CloseTwice: r.Bool(), PassFirst: r.Bool()}
	for i, n := 0, r.Range(0, 3); i < n; i++ {
		c.Before = append(c.Before, r.Intn(8))
	}
	for i, n := 0, r.Range(1, 4); i < n; i++ {
		if len(c.Before) > 0 && r.Chance(60) {
			c.After = append(c.After, c.Before[r.Intn(len(c.Before))]) // the very same derivation again
		} else {
			c.After = append(c.After, r.Intn(8))
		}
	}
	return c
}

func c07Derive(s tally.Scope, d int) tally.Scope {
	switch d {
	case 0:
		return s.SubScope("c")
	case 1:
		return s.Tagged(map[string]string{"t": "v"})
	case 2:
		return s.SubScope("d").Tagged(map[string]string{"u": "w-x"})
	case 3:
		return s.Tagged(map[string]string{"t": "v", "z": "q"})
	// derivations that denote the scope itself: from a closed scope they are inert like any other
	case 4:
		return s.Tagged(nil)
	case 5:
		return s.Tagged(map[string]string{})
	case 6:
		return s.SubScope("")
	default:
		return s.Tagged(map[string]string{"p": "1"}) // the parent's own tag when it is the tagged parent
	}
}

func c07Inert(c *c07InertCase) (fail string) {
	defer func() {
		if p := recover(); p != nil {
			fail = fmt.Sprintf("panic: %v", p)
		}
	}()
	log := &Log{}
	opts := tally.ScopeOptions{OmitCardinalityMetrics: true}
	if c.San {
		opts.SanitizeOptions = regSanOpts
	}
	if c.Cached {
		opts.CachedReporter = &RecCached{L: log, Caps: caps{true, true}}
	} else {
		opts.Reporter = &RecReporter{L: log, Caps: caps{true, true}}
	}
	root, closer := tally.VerifNewRootScope(opts, 0, 2)
	defer closer.Close()
	var parent tally.Scope
	if c.ParentTag {
		parent = root.Tagged(map[string]string{"p": "1"})
	} else {
		parent = root.SubScope("p")
	}
	for i, d := range c.Before {
		c07Derive(parent, d).Counter(fmt.Sprintf("before%d", i)).Inc(1)
	}
	parent.Counter("own").Inc(1)
	parent.(interface{ Close() error }).Close()
	if c.CloseTwice {
		if err := parent.(interface{ Close() error }).Close(); err != nil {
			return fmt.Sprintf("second Close of a subscope returned %v", err)
		}
	}
	if c.PassFirst {
		tally.VerifReportOnce(root)
	}
	for i, d := range c.After {
		c07Derive(parent, d).Counter(fmt.Sprintf("after%d", i)).Inc(1)
	}
	tally.VerifReportOnce(root)
	tally.VerifReportOnce(root)
	got := map[string]int64{}
	alloc := map[int64]string{}
	for _, e := range log.Snapshot() {
		switch e.K {
		case 1:
			got[e.S[0]] += e.I[0]
		case 11:
			alloc[e.I[0]] = e.S[0]
		case 21:
			got[alloc[e.I[0]]] += e.I[1]
		}
	}
	for name, v := range got {
		if strings.Contains(name, "after") {
			return fmt.Sprintf("%q = %d was delivered although it was recorded through a scope derived from a closed scope", name, v)
		}
	}
	nb := int64(0)
	for name, v := range got {
		if strings.Contains(name, "before") || strings.HasSuffix(name, "own") {
			nb += v
		}
	}
	if nb != int64(len(c.Before))+1 {
		return fmt.Sprintf("%d increments were recorded before the Close (on the scope and its children), %d delivered", len(c.Before)+1, nb)
	}
	return ""
}
