package main

// C04 - uncontrolled name storm: "A metric obtained through any chain of SubScope and Tagged
// calls is delivered under the name formed by the root prefix and the subscope names in order
// joined by the configured separator followed by the metric name" - also when several
// goroutines derive DIFFERENT names from one prefixed scope at the same moment (the usual
// scope.SubScope(component).Counter(event).Inc(1) on a hot path).
//
// Per round G goroutines pass a spin barrier and then, a fixed number of times each, derive
// their own sub-scope from one shared prefixed scope, obtain their metrics there and on the
// shared scope itself and record through them. After they have all returned one report pass runs.
// Direct predicate, no timing involved: the set of delivered (kind, name, tags) is exactly the
// set the derivations denote, and every counter arrives with exactly what was added through
// its derivation (an increment made through one derivation that lands under another one's
// name changes both totals).

import (
	"fmt"
	"runtime"
	"sort"
	"strings"
	"sync"
	"sync/atomic"
	"time"

	tally "github.com/uber-go/tally/v4"
)

type c04StormCase struct {
	NameStorm bool `json:"name_storm"`
	Rounds    int  `json:"rounds"`
	Iters     int  `json:"iters"`
	G         int  `json:"g"`
	First     int  `json:"first_round"`
}

var c04StormPrefixes = []string{"svc", "checkout-service", "a", "api.v2", "my_app_0123", "p", "frontend.web.eu-west-1", "x.y.z.w"}
var c04StormNames = []string{"orders", "refund", "basket", "coupon", "a", "bb", "ccc", "dddd", "login", "pay", "q", "zz"}

// c04StormRound runs round r; it returns a description of the first wrong delivery ("" = none).
func c04StormRound(r, iters, G int) string {
	flavour := []string{"plain", "cached", "test"}[r%3]
	prefix := c04StormPrefixes[(r/3)%len(c04StormPrefixes)]
	sep := []string{"", ".", "_", "::"}[(r/24)%4]
	if flavour == "test" {
		sep = ""
	}
	sepEff := sep
	if sepEff == "" {
		sepEff = tally.DefaultSeparator
	}
	log := &Log{}
	rootTags := map[string]string{"env": "prod"}
	var root tally.Scope
	shards := uint([]int{1, 2, 16}[(r/5)%3])
	switch flavour {
	case "test":
		root = tally.VerifNewTestScope(prefix, rootTags, shards)
	case "cached":
		root, _ = tally.VerifNewRootScope(tally.ScopeOptions{Prefix: prefix, Tags: rootTags, Separator: sep,
			CachedReporter: &RecCached{L: log, Caps: caps{true, true}}, OmitCardinalityMetrics: true}, 0, shards)
	default:
		root, _ = tally.VerifNewRootScope(tally.ScopeOptions{Prefix: prefix, Tags: rootTags, Separator: sep,
			Reporter: &RecReporter{L: log, Caps: caps{true, true}}, OmitCardinalityMetrics: true}, 0, shards)
	}
	// the shared scope: the prefixed root, a sub-scope of it, or a tagged scope
	shared, sharedPrefix := root, prefix
	sharedTags := map[string]string{"env": "prod"}
	switch (r / 7) % 3 {
	case 1:
		shared, sharedPrefix = root.SubScope("api"), prefix+sepEff+"api"
	case 2:
		shared = root.Tagged(map[string]string{"zone": "z1"})
		sharedTags["zone"] = "z1"
	}
	sameMetric := (r/2)%2 == 0 // every goroutine uses the same metric name in its own sub-scope
	type want struct {
		kind  int
		total int64
	}
	expect := map[string]want{} // "kind|name|sorted tags" -> what must arrive
	id := func(kind int, name string, tags map[string]string) string {
		return fmt.Sprintf("%d|%s|%s", kind, name, strings.Join(sortedFlat(tags), "\x1f"))
	}
	subs := make([]string, G)
	mets := make([]string, G)
	for g := 0; g < G; g++ {
		subs[g] = c04StormNames[(g+r)%len(c04StormNames)]
		mets[g] = "hits"
		if !sameMetric {
			mets[g] = c04StormNames[(g*5+r+3)%len(c04StormNames)]
		}
		subPrefix := sharedPrefix + sepEff + subs[g]
		expect[id(1, subPrefix+sepEff+mets[g], sharedTags)] = want{1, int64(iters)}
		expect[id(1, sharedPrefix+sepEff+"c_"+subs[g], sharedTags)] = want{1, int64((iters + 7) / 8)}
		expect[id(2, subPrefix+sepEff+"depth", sharedTags)] = want{2, 0}
		expect[id(3, sharedPrefix+sepEff+"t_"+subs[g], sharedTags)] = want{3, 0}
		expect[id(4, subPrefix+sepEff+"lat", sharedTags)] = want{4, 0}
	}
	var arrived int32
	var wg sync.WaitGroup
	for g := 0; g < G; g++ {
		g := g
		wg.Add(1)
		go func() {
			defer wg.Done()
			atomic.AddInt32(&arrived, 1)
			for atomic.LoadInt32(&arrived) < int32(G) {
			}
			for i := 0; i < iters; i++ {
				s := shared.SubScope(subs[g])
				s.Counter(mets[g]).Inc(1)
				if i%8 == 0 {
					shared.Counter("c_" + subs[g]).Inc(1)
				}
				if i == 0 || i == iters/2 {
					s.Gauge("depth").Update(float64(g + 1))
					shared.Timer("t_" + subs[g]).Record(time.Duration(g+1) * time.Millisecond)
					s.Histogram("lat", tally.ValueBuckets{1, 2}).RecordValue(0.5)
				}
			}
		}()
	}
	if dl := waitOrDeadlock(&wg, "uber-go/tally/v4."); dl != "" {
		return "goroutines deriving names from one scope never returned: " + dl
	}
	// what arrived
	got := map[string]int64{}
	switch flavour {
	case "test":
		sn := root.(tally.TestScope).Snapshot()
		for _, e := range sn.Counters() {
			got[id(1, e.Name(), e.Tags())] += e.Value()
		}
		for _, e := range sn.Gauges() {
			got[id(2, e.Name(), e.Tags())] += 0
		}
		for _, e := range sn.Timers() {
			got[id(3, e.Name(), e.Tags())] += 0
		}
		for _, e := range sn.Histograms() {
			got[id(4, e.Name(), e.Tags())] += 0
		}
	default:
		tally.VerifReportOnce(root)
		handle := map[int64]string{}
		for _, e := range log.Snapshot() {
			d := deliveryOf(e)
			switch {
			case e.K == 1:
				got[id(1, d.Name, d.Tags)] += e.I[0]
			case e.K >= 2 && e.K <= 4:
				got[id(e.K, d.Name, d.Tags)] += 0
			case e.K >= 11 && e.K <= 14:
				k := id(e.K-10, d.Name, d.Tags)
				handle[e.I[0]] = k
				got[k] += 0
			case e.K == 21:
				got[handle[e.I[0]]] += e.I[1]
			}
		}
	}
	program := fmt.Sprintf("round %d (%s root, prefix %q, separator %q, shared scope prefix %q tags %v): %d goroutines each %d times derive SubScope(own name of %v) of the shared scope and count through Counter(%v) there, and use their own counter / gauge / timer / histogram names on the shared scope", r, flavour, prefix, sepEff, sharedPrefix, sharedTags, G, iters, subs, mets)
	var keys []string
	for k := range got {
		keys = append(keys, k)
	}
	sort.Strings(keys)
	show := func(k string) string {
		p := strings.SplitN(k, "|", 3)
		return fmt.Sprintf("%s %q with tags %q", map[string]string{"1": "counter", "2": "gauge", "3": "timer", "4": "histogram"}[p[0]], p[1], strings.Split(p[2], "\x1f"))
	}
	for _, k := range keys {
		if _, ok := expect[k]; !ok {
			return fmt.Sprintf("%s: delivered %s, which no derivation of this program denotes", program, show(k))
		}
	}
	var eks []string
	for k := range expect {
		eks = append(eks, k)
	}
	sort.Strings(eks)
	for _, k := range eks {
		w := expect[k]
		v, ok := got[k]
		if !ok {
			return fmt.Sprintf("%s: nothing was delivered as %s", program, show(k))
		}
		if w.kind == 1 && v != w.total {
			return fmt.Sprintf("%s: %d was added through the derivation of %s, %d arrived under that name", program, w.total, show(k), v)
		}
	}
	return ""
}

func c04StormG() int {
	g := runtime.GOMAXPROCS(0)
	if g > 8 {
		g = 8
	}
	return g
}

// c04NameStorm runs the rounds [first, first+rounds).
func c04NameStorm(ctx *Ctx, first, rounds, iters int) {
	G := c04StormG()
	if G < 2 {
		ctx.Note("name storm skipped: one P only")
		return
	}
	for r := first; r < first+rounds; r++ {
		if f := c04StormRound(r, iters, G); f != "" {
			ctx.Fail("concurrently_derived_names_are_the_derivations_names", f,
				c04StormCase{NameStorm: true, Rounds: rounds, Iters: iters, G: G, First: first}, nil)
			break
		}
	}
	ctx.Res.Evaluations += rounds
	ctx.Res.Histogram["uncontrolled-name-storm-rounds"] += rounds
}
