package main

// C18, concurrent stream.  The property is about EVERY value handed to the
// reporter ("Each counter delta, gauge value and timer value handed to the
// StatsD reporter results in exactly one call on the underlying client ...
// Histogram bucket samples are sent as one counter increment on the stat named
// '<name>.<lower>-<upper>'"), and one reporter is handed values by several
// goroutines at once: every root scope that shares it has its own report loop,
// and Close() reports from the caller's goroutine.  So G goroutines make report
// calls (mostly all buckets of histograms with goroutine-specific names)
// on ONE reporter over ONE recording client at the same time, under the Go
// scheduler (uncontrolled).  Direct predicate: the multiset of client calls
// (method, stat name, value, rate, number of tags) equals the multiset of the
// calls expected for the report calls made - the model is stateless, so the
// expected multiset does not depend on the interleaving (C18_order_independent).
// No timing enters the verdict.

import (
	"fmt"
	"math"
	"sort"
	"sync"
	"time"

	tally "github.com/uber-go/tally/v4"
	tstatsd "github.com/uber-go/tally/v4/statsd"
)

type c18Conc struct {
	G    int    `json:"g"`    // goroutines
	N    int    `json:"n"`    // client calls expected per goroutine (at least)
	Seed uint64 `json:"seed"` // the calls are regenerated from this
}

type c18Call struct {
	do   func(rep tally.StatsReporter)
	want Ev
	what string
}

// rendering of a bound as the property words it (independent of the reporter)
func c18RV(prec int, bits int64) string {
	f := math.Float64frombits(uint64(bits))
	if f == math.MaxFloat64 {
		return "infinity"
	}
	if f == -math.MaxFloat64 {
		return "-infinity"
	}
	return fmt.Sprintf("%.*f", prec, f)
}
func c18RD(d int64) string {
	if d == math.MaxInt64 {
		return "infinity"
	}
	if d == math.MinInt64 {
		return "-infinity"
	}
	return time.Duration(d).String()
}

// c18Expand turns ops into single report calls with the client call each must result in.
func c18Expand(ops []c18Op, rate int64, prec int) []c18Call {
	var out []c18Call
	want := func(k int, name string, v int64) Ev {
		return Ev{K: k, I: []int64{v, rate, 0}, S: []string{name}}
	}
	for i := range ops {
		o := ops[i]
		name, tg := string(o.Name), tagsOf(o.Tags)
		vs := func(b tally.Buckets, lo, hi, n int64) {
			out = append(out, c18Call{
				do: func(rep tally.StatsReporter) {
					rep.ReportHistogramValueSamples(name, tg, b, math.Float64frombits(uint64(lo)), math.Float64frombits(uint64(hi)), n)
				},
				want: want(1, name+"."+c18RV(prec, lo)+"-"+c18RV(prec, hi), n),
				what: fmt.Sprintf("ReportHistogramValueSamples(%q, [%#x, %#x], %d)", name, uint64(lo), uint64(hi), n)})
		}
		ds := func(b tally.Buckets, lo, hi, n int64) {
			out = append(out, c18Call{
				do: func(rep tally.StatsReporter) {
					rep.ReportHistogramDurationSamples(name, tg, b, time.Duration(lo), time.Duration(hi), n)
				},
				want: want(1, name+"."+c18RD(lo)+"-"+c18RD(hi), n),
				what: fmt.Sprintf("ReportHistogramDurationSamples(%q, [%d, %d], %d)", name, lo, hi, n)})
		}
		switch o.K {
		case 1:
			out = append(out, c18Call{do: func(rep tally.StatsReporter) { rep.ReportCounter(name, tg, o.V) },
				want: want(1, name, o.V), what: fmt.Sprintf("ReportCounter(%q, %d)", name, o.V)})
		case 2:
			v := math.Float64frombits(uint64(o.V))
			if !c18GaugeOK(v) {
				continue
			}
			out = append(out, c18Call{do: func(rep tally.StatsReporter) { rep.ReportGauge(name, tg, v) },
				want: want(2, name, c18Trunc(v)), what: fmt.Sprintf("ReportGauge(%q, %v)", name, v)})
		case 3:
			out = append(out, c18Call{do: func(rep tally.StatsReporter) { rep.ReportTimer(name, tg, time.Duration(o.V)) },
				want: want(3, name, o.V), what: fmt.Sprintf("ReportTimer(%q, %d)", name, o.V)})
		case 4:
			vs(nil, o.Lo, o.Hi, o.V)
		case 5:
			ds(nil, o.Lo, o.Hi, o.V)
		case 8:
			vb := make(tally.ValueBuckets, len(o.Spec))
			for q, b := range o.Spec {
				vb[q] = math.Float64frombits(uint64(b))
			}
			for q, p := range tally.BucketPairs(vb) {
				vs(vb, fbits(p.LowerBoundValue()), fbits(p.UpperBoundValue()), o.V+int64(q))
			}
		case 9:
			db := make(tally.DurationBuckets, len(o.Spec))
			for q, d := range o.Spec {
				db[q] = time.Duration(d)
			}
			for q, p := range tally.BucketPairs(db) {
				ds(db, int64(p.LowerBoundDuration()), int64(p.UpperBoundDuration()), o.V+int64(q))
			}
		}
	}
	return out
}

// c18ConcCalls regenerates the calls of every goroutine from the case.
func c18ConcCalls(c *c18Case) [][]c18Call {
	rate := int64(c.Rate)
	if math.Float32frombits(c.Rate) == 0 {
		rate = int64(math.Float32bits(1.0))
	}
	prec := int(c.Prec)
	if prec == 0 {
		prec = 6
	}
	root := NewRng(c.Conc.Seed)
	per := make([][]c18Call, c.Conc.G)
	for g := range per {
		r := root.Fork()
		serial := int64(g) * 1000000000
		for len(per[g]) < c.Conc.N {
			gc := c18Gen(r, 1)
			var ops []c18Op
			for _, o := range gc.Ops {
				if o.K == 6 || o.K == 7 || (o.K < 8 && r.Chance(60)) {
					continue
				}
				// goroutine-specific names and distinct values: a call that goes out
				// under another goroutine's name or bound shows in the multiset
				o.Name = B(fmt.Sprintf("g%d.", g)) + o.Name
				if o.K != 2 {
					o.V = serial
					serial += 100
				}
				ops = append(ops, o)
			}
			per[g] = append(per[g], c18Expand(ops, rate, prec)...)
		}
	}
	return per
}

// c18ConcRun makes the calls from G goroutines on one reporter; "" = the client saw exactly
// the expected multiset of calls.
func c18ConcRun(c *c18Case, per [][]c18Call) (fail string, obs []Ev) {
	st := &c18Statter{err: c.Err}
	rep := tstatsd.NewReporter(st, tstatsd.Options{SampleRate: math.Float32frombits(c.Rate), HistogramBucketNamePrecision: c.Prec})
	start := make(chan struct{})
	var wg sync.WaitGroup
	for g := range per {
		wg.Add(1)
		go func(calls []c18Call) {
			defer wg.Done()
			<-start
			for i := range calls {
				calls[i].do(rep)
			}
		}(per[g])
	}
	close(start)
	wg.Wait()

	want := map[string]int{}
	whatOf := map[string]string{}
	total := 0
	for g := range per {
		for _, k := range per[g] {
			t := k.want.Term()
			want[t]++
			whatOf[t] = fmt.Sprintf("goroutine %d: %s -> %v", g, k.what, k.want)
			total++
		}
	}
	var extra []Ev
	for _, e := range st.log {
		t := e.Term()
		if want[t] > 0 {
			want[t]--
		} else {
			extra = append(extra, e)
		}
	}
	var missing []string
	for t, n := range want {
		if n > 0 {
			missing = append(missing, whatOf[t])
		}
	}
	sort.Strings(missing)
	if len(extra) == 0 && len(missing) == 0 {
		return "", nil
	}
	fail = fmt.Sprintf("%d goroutines made %d report calls on one reporter; the client saw %d calls, %d of them not expected and %d expected ones missing.",
		len(per), total, len(st.log), len(extra), len(missing))
	if len(extra) > 0 {
		fail += fmt.Sprintf(" Unexpected client call: %v.", extra[0])
	}
	if len(missing) > 0 {
		fail += fmt.Sprintf(" Never arrived: %s.", missing[0])
	}
	if len(extra) > 8 {
		extra = extra[:8]
	}
	return fail, extra
}

func c18ConcOne(ctx *Ctx, c *c18Case) {
	per := c18ConcCalls(c)
	// in replay mode the schedule is not reproduced: repeat the round
	reps := 1
	if ctx.Replay != nil {
		reps = 200
	}
	var fail string
	var obs []Ev
	for i := 0; i < reps && fail == ""; i++ {
		fail, obs = c18ConcRun(c, per)
	}
	ctx.Case(c, "", fmt.Sprintf("concurrent/goroutines=%d/client-err-mode=%d", c.Conc.G, c.Err), hashOf(c))
	if fail != "" {
		ctx.Fail("concurrent_report_calls_result_in_the_expected_multiset_of_client_calls", fail, c, obs)
	}
}

func c18ConcStream(ctx *Ctx) {
	rounds := ctx.N(24, 400)
	fails := 0
	calls := 0
	for i := 0; i < rounds && fails < 2; i++ {
		c := c18Gen(ctx.R, 1)
		c.Ops = nil
		c.Conc = &c18Conc{G: []int{2, 3, 4, 8}[i%4], N: 300, Seed: ctx.R.U64()}
		before := len(ctx.Res.Failures)
		c18ConcOne(ctx, &c)
		calls += c.Conc.G * c.Conc.N
		if len(ctx.Res.Failures) > before {
			fails++
		}
	}
	ctx.Res.Extra["concurrent_rounds"] = rounds
	ctx.Res.Extra["concurrent_report_calls_at_least"] = calls
}
