package main

// C16 — Thrift encoding round trip and size calculator.
//
// Every case is a sequence of writes through ONE reused protocol object per
// role (encoder over a memory buffer, calculator over TCalcTransport, decoder
// over TBufferedReadTransport), all made by the protocol factory the m3
// reporter uses.  Observables: the encoded bytes, the calculated size, and
// whether the vendored decoder gives the input back (direct predicate).

import (
	"strings"
	"bytes"
	"encoding/json"
	"fmt"
	"math"
	"reflect"
	"runtime"
	"sync"
	"sync/atomic"
	"time"

	tally "github.com/uber-go/tally/v4"
	"github.com/uber-go/tally/v4/m3"
	customtransport "github.com/uber-go/tally/v4/m3/customtransports"
	m3thrift "github.com/uber-go/tally/v4/m3/thrift/v2"
	"github.com/uber-go/tally/v4/thirdparty/github.com/apache/thrift/lib/go/thrift"
)

type c16Tag struct {
	K B `json:"k"`
	V B `json:"v"`
}
type c16Metric struct {
	Name  B        `json:"name"`
	Type  int64    `json:"type"`
	Count int64    `json:"count"`
	Gauge int64    `json:"gauge"` // float64 bits
	Timer int64    `json:"timer"`
	Ts    int64    `json:"ts"`
	Tags  []c16Tag `json:"tags"` // null = nil slice (field absent), [] = empty list
}
type c16Op struct {
	Op         string      `json:"op"` // metric | batch | emit | prebuilt | concurrent
	M          *c16Metric  `json:"m,omitempty"`
	Metrics    []c16Metric `json:"metrics,omitempty"`
	NilMetrics bool        `json:"nil_metrics,omitempty"` // Metrics is a nil slice instead of an empty one
	Common     []c16Tag    `json:"common"`
	Seq        int32       `json:"seq,omitempty"`
	// prebuilt: Allocate{Counter,Gauge,Timer} on a real m3 reporter, later reported with V at Ts
	Kind   int     `json:"kind,omitempty"`
	Name   B       `json:"name,omitempty"`
	TagMap map[B]B `json:"tagmap,omitempty"`
	V      int64   `json:"v,omitempty"`
	Ts     int64   `json:"ts,omitempty"`
	// concurrent: G goroutines released together each allocate N counters / gauges / timers /
	// histograms (derived from CSeed) on the one real reporter of this protocol
	G     int    `json:"g,omitempty"`
	N     int    `json:"n,omitempty"`
	CSeed uint64 `json:"cseed,omitempty"`
}
type c16Case struct {
	Proto  int     `json:"proto"` // 0 compact, 1 binary
	Prefix []int16 `json:"prefix"`
	Junk   B       `json:"junk"`
	Ops    []c16Op `json:"ops"`
}

// ---------------------------------------------------------------- generator

var c16Lens = []int{0, 1, 2, 3, 5, 8, 13, 63, 64, 65, 127, 128, 129, 255, 256, 300, 1023, 1024}

func c16Str(r *Rng, long int) B {
	var n int
	switch x := r.Intn(100); {
	case x < 70:
		n = r.Intn(9)
	case x < 90:
		n = 9 + r.Intn(32)
	case x < 96:
		n = c16Lens[r.Intn(len(c16Lens))]
	case x < 99:
		n = 41 + r.Intn(260)
	default:
		n = 300 + r.Intn(725)
	}
	if long > 0 {
		n = long
	}
	b := make([]byte, n)
	mode := r.Intn(4)
	for i := range b {
		switch mode {
		case 0:
			b[i] = byte('a' + r.Intn(26))
		case 1:
			b[i] = byte(r.Intn(256))
		case 2:
			b[i] = []byte{0, 0x7f, 0x80, 0xff, 0x0c, 0x18, 0xc3, 0xa9, '=', ','}[r.Intn(10)]
		default:
			if r.Chance(80) {
				b[i] = byte(0x20 + r.Intn(0x5f))
			} else {
				b[i] = byte(r.Intn(256))
			}
		}
	}
	return B(b)
}

func c16Count(r *Rng, max int) int {
	switch x := r.Intn(100); {
	case x < 15:
		return 0
	case x < 55:
		return 1 + r.Intn(4)
	case x < 75:
		return []int{14, 15, 16}[r.Intn(3)]
	default:
		return r.Intn(max + 1)
	}
}

func c16Tags(r *Rng, max int) []c16Tag {
	if r.Chance(25) {
		return nil
	}
	n := c16Count(r, max)
	if n > max {
		n = max
	}
	t := make([]c16Tag, n)
	for i := range t {
		t[i] = c16Tag{c16Str(r, 0), c16Str(r, 0)}
	}
	return t
}

var c16Types = []int64{0, 1, 2, 3, 1, 2, 3, -1, 4, 63, 64, 1 << 20, math.MaxInt32, math.MinInt32}

func c16GenMetric(r *Rng, maxTags int) c16Metric {
	m := c16Metric{Name: c16Str(r, 0), Tags: c16Tags(r, maxTags)}
	m.Type = c16Types[r.Intn(len(c16Types))]
	if r.Chance(5) {
		m.Type = int64(int32(r.U64()))
	}
	// all four value slots are wire fields; fill them independently of the type
	switch r.Intn(4) {
	case 0:
		m.Count = r.I64()
	case 1:
		m.Gauge = fbits(r.F64())
	case 2:
		m.Timer = r.I64()
	default:
		m.Count, m.Gauge, m.Timer = r.I64(), fbits(r.F64()), r.I64()
	}
	switch r.Intn(5) {
	case 0:
		m.Ts = r.I64()
	case 1:
		m.Ts = math.MaxInt64
	default:
		m.Ts = 1600000000000000000 + int64(r.U64()%400000000000000000) // nanoseconds around now
	}
	return m
}

func c16Gen(r *Rng, i int, thorough bool) c16Case {
	c := c16Case{Proto: i % 2}
	for d := r.Intn(4); d > 0 && r.Chance(60); d-- {
		c.Prefix = append(c.Prefix, int16([]int{1, 2, 4, 7, 15, 16, 200, 32767}[r.Intn(8)]))
	}
	if r.Chance(70) {
		c.Junk = c16Str(r, 0)
		if len(c.Junk) > 12 {
			c.Junk = c.Junk[:12]
		}
	}
	maxMetrics := 60
	if thorough {
		maxMetrics = 500
	}
	// fixed positions allocate concurrently on the real reporter (followed by single-goroutine
	// allocations on the same reporter)
	if pos := i % 150; pos >= 12 && pos < 18 {
		c.Ops = append(c.Ops, c16Op{Op: "concurrent", G: []int{2, 3, 4, 8, 8, 16}[pos-12], N: 300, CSeed: r.U64()})
		for k := 0; k < 2; k++ {
			c.Ops = append(c.Ops, c16Op{Op: "prebuilt", Kind: 1 + r.Intn(3), Name: c16Str(r, 0), V: 7, Ts: 1700000000000000000})
		}
		return c
	}
	// fixed positions carry one large batch of small metrics ("all batches": list sizes around the
	// one-byte / two-byte varint boundary of the Compact list header and beyond 255 / 256)
	if pos := i % 150; pos >= 18 && pos < 26 {
		n := []int{127, 128, 255, 256, 257, 300, 400, 500}[pos-18]
		op := c16Op{Op: []string{"batch", "emit"}[pos%2], Common: c16Tags(r, 2), Seq: 7}
		for k := 0; k < n; k++ {
			m := c16GenMetric(r, 1)
			if len(m.Name) > 12 {
				m.Name = m.Name[:12]
			}
			op.Metrics = append(op.Metrics, m)
		}
		c.Ops = append(c.Ops, op)
		return c
	}
	nops := 1 + r.Intn(4)
	// a few fixed positions carry one long string: beyond the two-byte varint length (Compact)
	// and across the 32 KiB chunking of the Binary string reader
	long := 0
	if i >= 4 && i < 12 {
		long = []int{16383, 40000, 16384, 70001, 32768, 32769, 129, 65537}[i-4]
	}
	for j := 0; j < nops; j++ {
		x := r.Intn(100)
		if long > 0 && j == 0 {
			x = 0
			if i >= 8 {
				x = 60
			}
		}
		switch {
		case x < 25:
			m := c16GenMetric(r, 16)
			if long > 0 && j == 0 {
				m.Name = c16Str(r, long)
			}
			c.Ops = append(c.Ops, c16Op{Op: "metric", M: &m})
		case x < 85:
			op := c16Op{Op: "batch", Common: c16Tags(r, 16)}
			if x >= 50 {
				op.Op = "emit"
				op.Seq = []int32{1, 2, 127, 128, 16384, -1, 0, math.MaxInt32, math.MinInt32, int32(r.U64())}[r.Intn(10)]
			}
			n := c16Count(r, 60)
			if maxMetrics > 60 && r.Chance(8) {
				n = r.Intn(maxMetrics + 1)
			}
			if thorough && r.Chance(3) {
				n = []int{127, 128, 129, 500}[r.Intn(4)]
			}
			maxTags := 16
			if n > 100 {
				maxTags = 4
			}
			for k := 0; k < n; k++ {
				op.Metrics = append(op.Metrics, c16GenMetric(r, maxTags))
			}
			if n == 0 {
				op.NilMetrics = r.Bool()
			}
			if long > 0 && j == 0 {
				if n == 0 {
					n = 1
					op.Metrics = append(op.Metrics, c16GenMetric(r, maxTags))
					op.NilMetrics = false
				}
				op.Metrics[n-1].Tags = append(op.Metrics[n-1].Tags, c16Tag{"k", c16Str(r, long)})
			}
			c.Ops = append(c.Ops, op)
		default:
			op := c16Op{Op: "prebuilt", Kind: 1 + r.Intn(3), Name: c16Str(r, 0), Ts: 1600000000000000000 + int64(r.U64()%400000000000000000)}
			if r.Chance(10) {
				op.Ts = r.I64()
			}
			if r.Chance(70) {
				op.TagMap = map[B]B{}
				for k := c16Count(r, 16); k > 0; k-- {
					// keys and values without the characters of the tag-cache key format (C13's concern)
					op.TagMap[B(fmt.Sprintf("k%d%s", k, alphaSmall[r.Intn(4)]))] = B(fmt.Sprintf("v%d", r.Intn(1000)))
				}
			}
			if op.Kind == 2 {
				op.V = fbits(r.F64())
			} else {
				op.V = r.I64()
			}
			c.Ops = append(c.Ops, op)
		}
	}
	return c
}

// ---------------------------------------------------------------- driver

func c16ToTags(t []c16Tag) []m3thrift.MetricTag {
	if t == nil {
		return nil
	}
	o := make([]m3thrift.MetricTag, len(t))
	for i, x := range t {
		o[i] = m3thrift.MetricTag{Name: string(x.K), Value: string(x.V)}
	}
	return o
}
func c16ToMetric(m *c16Metric) m3thrift.Metric {
	return m3thrift.Metric{Name: string(m.Name),
		Value: m3thrift.MetricValue{MetricType: m3thrift.MetricType(m.Type), Count: m.Count,
			Gauge: math.Float64frombits(uint64(m.Gauge)), Timer: m.Timer},
		Timestamp: m.Ts, Tags: c16ToTags(m.Tags)}
}
func c16ToBatch(op *c16Op) m3thrift.MetricBatch {
	b := m3thrift.MetricBatch{CommonTags: c16ToTags(op.Common)}
	if !op.NilMetrics {
		b.Metrics = make([]m3thrift.Metric, 0, len(op.Metrics))
	}
	for i := range op.Metrics {
		b.Metrics = append(b.Metrics, c16ToMetric(&op.Metrics[i]))
	}
	return b
}

func c16TagsEq(a, b []m3thrift.MetricTag) bool {
	if (a == nil) != (b == nil) || len(a) != len(b) {
		return false
	}
	for i := range a {
		if a[i] != b[i] {
			return false
		}
	}
	return true
}
func c16MetricEq(a, b *m3thrift.Metric) bool {
	return a.Name == b.Name && a.Value.MetricType == b.Value.MetricType && a.Value.Count == b.Value.Count &&
		math.Float64bits(a.Value.Gauge) == math.Float64bits(b.Value.Gauge) && a.Value.Timer == b.Value.Timer &&
		a.Timestamp == b.Timestamp && c16TagsEq(a.Tags, b.Tags)
}

// the required list Metrics has no nil/empty distinction on the wire: nil reads back as empty
func c16BatchEq(a, b *m3thrift.MetricBatch) bool {
	if len(a.Metrics) != len(b.Metrics) || !c16TagsEq(a.CommonTags, b.CommonTags) {
		return false
	}
	for i := range a.Metrics {
		if !c16MetricEq(&a.Metrics[i], &b.Metrics[i]) {
			return false
		}
	}
	return true
}

// c16Show renders a metric for failure messages (ASCII only).
func c16Show(m *m3thrift.Metric) string {
	t := "nil"
	if m.Tags != nil {
		t = fmt.Sprintf("%d:", len(m.Tags))
		for i, x := range m.Tags {
			if i == 3 {
				t += "..."
				break
			}
			t += fmt.Sprintf("{%+.40q %+.40q}", x.Name, x.Value)
		}
	}
	return fmt.Sprintf("{name %+.60q type %d count %d gauge 0x%016x timer %d ts %d tags %s}", m.Name, int64(m.Value.MetricType),
		m.Value.Count, math.Float64bits(m.Value.Gauge), m.Value.Timer, m.Timestamp, t)
}

type c16Handler struct{ got *m3thrift.MetricBatch }

func (h *c16Handler) EmitMetricBatchV2(b m3thrift.MetricBatch) error { h.got = &b; return nil }

func c16MetricEv(k int, m *m3thrift.Metric, extra []int64, extraF uint32) Ev {
	e := Ev{K: k, I: []int64{int64(m.Value.MetricType), m.Value.Count, fbits(m.Value.Gauge), m.Value.Timer, m.Timestamp, b2i(m.Tags != nil)}, F: 4, S: []string{m.Name}}
	for _, t := range m.Tags {
		e.S = append(e.S, t.Name, t.Value)
	}
	e.I = append(e.I, extra...)
	e.F |= extraF << 6
	return e
}
func c16TagStrs(t []m3thrift.MetricTag) []string {
	var s []string
	for _, x := range t {
		s = append(s, x.Name, x.Value)
	}
	return s
}

var c16Reporters [2]m3.Reporter
var c16ReporterErr [2]error

func c16Reporter(proto int) (m3.Reporter, error) {
	if c16Reporters[proto] == nil && c16ReporterErr[proto] == nil {
		p := m3.Compact
		if proto == 1 {
			p = m3.Binary
		}
		c16Reporters[proto], c16ReporterErr[proto] = m3.NewReporter(m3.Options{
			HostPorts: []string{"127.0.0.1:9"}, Service: "svc", Env: "test", Protocol: p})
	}
	return c16Reporters[proto], c16ReporterErr[proto]
}

// c16Prebuilt allocates on the real reporter and reads the pre-built metric and its
// measured size out of the returned handle (unexported fields, read-only reflection).
func c16Prebuilt(proto int, op *c16Op) (m m3thrift.Metric, size int32, err error) {
	r, err := c16Reporter(proto)
	if err != nil {
		return m, 0, err
	}
	var h interface{}
	tags := tagsOf(op.TagMap)
	switch op.Kind {
	case 1:
		h = r.AllocateCounter(string(op.Name), tags)
	case 2:
		h = r.AllocateGauge(string(op.Name), tags)
	default:
		h = r.AllocateTimer(string(op.Name), tags)
	}
	v := reflect.ValueOf(h)
	if v.Kind() != reflect.Struct || !v.FieldByName("metric").IsValid() || !v.FieldByName("size").IsValid() {
		return m, 0, fmt.Errorf("unexpected handle type %T", h)
	}
	m, size = c16ReadCached(v)
	return m, size, nil
}

// c16ReadCached reads (metric, size) out of a cachedMetric struct value.
func c16ReadCached(v reflect.Value) (m m3thrift.Metric, size int32) {
	mv := v.FieldByName("metric")
	size = int32(v.FieldByName("size").Int())
	val := mv.FieldByName("Value")
	m.Name = mv.FieldByName("Name").String()
	m.Timestamp = mv.FieldByName("Timestamp").Int()
	m.Value.MetricType = m3thrift.MetricType(val.FieldByName("MetricType").Int())
	m.Value.Count = val.FieldByName("Count").Int()
	m.Value.Gauge = val.FieldByName("Gauge").Float()
	m.Value.Timer = val.FieldByName("Timer").Int()
	tv := mv.FieldByName("Tags")
	if !tv.IsNil() {
		m.Tags = make([]m3thrift.MetricTag, tv.Len())
		for i := range m.Tags {
			m.Tags[i] = m3thrift.MetricTag{Name: tv.Index(i).FieldByName("Name").String(), Value: tv.Index(i).FieldByName("Value").String()}
		}
	}
	return m, size
}

// one measured structure: the metric exactly as calculateSize saw it, and the size recorded for it
type c16Measured struct {
	m    m3thrift.Metric
	size int32
	what string
}

// c16ReadHandle turns an Allocate* result into the structures the reporter measured:
// a counter/gauge/timer handle is one; a histogram is one per bucket, measured (as process()
// sends it) with the bucket id and bucket tags appended to the metric's own tags.
func c16ReadHandle(h interface{}, what string) ([]c16Measured, error) {
	v := reflect.ValueOf(h)
	if v.Kind() != reflect.Struct {
		return nil, fmt.Errorf("unexpected handle type %T", h)
	}
	if v.FieldByName("metric").IsValid() && v.FieldByName("size").IsValid() {
		m, size := c16ReadCached(v)
		return []c16Measured{{m, size, what}}, nil
	}
	rv := v.FieldByName("r")
	if !rv.IsValid() || rv.Kind() != reflect.Ptr || !v.FieldByName("cachedValueBuckets").IsValid() {
		return nil, fmt.Errorf("unexpected handle type %T", h)
	}
	idName, bName := rv.Elem().FieldByName("bucketIDTagName"), rv.Elem().FieldByName("bucketTagName")
	if !idName.IsValid() || !bName.IsValid() {
		return nil, fmt.Errorf("reporter has no bucket tag names")
	}
	var out []c16Measured
	for _, f := range []string{"cachedValueBuckets", "cachedDurationBuckets"} {
		bs := v.FieldByName(f)
		for i := 0; i < bs.Len(); i++ {
			b := bs.Index(i)
			cm := b.FieldByName("metric")
			if !cm.IsValid() || cm.Kind() != reflect.Ptr || cm.IsNil() {
				return nil, fmt.Errorf("unexpected histogram bucket layout")
			}
			m, size := c16ReadCached(cm.Elem())
			tags := append([]m3thrift.MetricTag{}, m.Tags...)
			m.Tags = append(tags,
				m3thrift.MetricTag{Name: idName.String(), Value: b.FieldByName("bucketID").String()},
				m3thrift.MetricTag{Name: bName.String(), Value: b.FieldByName("bucket").String()})
			out = append(out, c16Measured{m, size, fmt.Sprintf("%s bucket %d", what, i)})
		}
	}
	return out, nil
}

// c16Concurrent: G goroutines, released together by a spin barrier, each allocate N metrics on
// the one reporter; returns everything the reporter measured, in (goroutine, allocation) order.
func c16Concurrent(proto int, op *c16Op) ([]c16Measured, error) {
	r, err := c16Reporter(proto)
	if err != nil {
		return nil, err
	}
	g, n := op.G, op.N
	if g < 1 {
		g = 1
	}
	handles := make([][]interface{}, g)
	whats := make([][]string, g)
	var ready int32
	var wg sync.WaitGroup
	for gi := 0; gi < g; gi++ {
		wg.Add(1)
		go func(gi int) {
			defer wg.Done()
			rg := NewRng(op.CSeed + uint64(gi)*1000003)
			type spec struct {
				kind int
				name string
				tags map[string]string
				b    tally.Buckets
			}
			specs := make([]spec, n)
			for i := range specs {
				sp := spec{kind: 1 + rg.Intn(5), name: fmt.Sprintf("c%d.%d.%s", gi, i, alphaSmall[rg.Intn(4)])}
				if nt := rg.Intn(7); nt > 0 {
					sp.tags = map[string]string{}
					for k := 0; k < nt; k++ {
						sp.tags[fmt.Sprintf("k%d", rg.Intn(12))] = fmt.Sprintf("v%d", rg.Intn(1<<uint(rg.Intn(20))))
					}
				}
				switch sp.kind {
				case 4:
					sp.b = tally.ValueBuckets{0, 1.5, float64(2 + rg.Intn(1000))}[:1+rg.Intn(3)]
				case 5:
					sp.b = tally.DurationBuckets{0, time.Millisecond, time.Duration(2+rg.Intn(1000)) * time.Second}[:1+rg.Intn(3)]
				}
				specs[i] = sp
			}
			hs := make([]interface{}, 0, n)
			ws := make([]string, 0, n)
			atomic.AddInt32(&ready, 1)
			for spins := 0; atomic.LoadInt32(&ready) < int32(g); spins++ {
				if spins%1024 == 1023 {
					runtime.Gosched()
				}
			}
			for i, sp := range specs {
				switch sp.kind {
				case 1:
					hs = append(hs, r.AllocateCounter(sp.name, sp.tags))
				case 2:
					hs = append(hs, r.AllocateGauge(sp.name, sp.tags))
				case 3:
					hs = append(hs, r.AllocateTimer(sp.name, sp.tags))
				default:
					hs = append(hs, r.AllocateHistogram(sp.name, sp.tags, sp.b))
				}
				ws = append(ws, fmt.Sprintf("goroutine %d allocation %d (%s)", gi, i, []string{"", "counter", "gauge", "timer", "value histogram", "duration histogram"}[sp.kind]))
			}
			handles[gi], whats[gi] = hs, ws
		}(gi)
	}
	wg.Wait()
	var out []c16Measured
	for gi := range handles {
		for i, h := range handles[gi] {
			ms, err := c16ReadHandle(h, whats[gi][i])
			if err != nil {
				return nil, err
			}
			out = append(out, ms...)
		}
	}
	return out, nil
}

type c16Obs struct {
	Op      string `json:"op"`
	Bytes   B      `json:"bytes"`
	Calc    int32  `json:"calc"`
	RSize   int32  `json:"reporter_size,omitempty"`
	Decoded string `json:"decoded,omitempty"`
}

// c16Run drives the real encoder / calculator / decoder.
func c16Run(c *c16Case) (in, obs []Ev, seen []c16Obs, fails [][2]string, skipped string) {
	// a panic of the generated code / the protocol on an encoder's own output is a failing input
	defer func() {
		if p := recover(); p != nil {
			fails = append(fails, [2]string{"decode_encode_is_identity", fmt.Sprintf("the encoder, the size calculator or the decoder panicked on this case: %v", p)})
		}
	}()
	var fac thrift.TProtocolFactory = thrift.NewTCompactProtocolFactory()
	if c.Proto == 1 {
		fac = thrift.NewTBinaryProtocolFactoryDefault()
	}
	wbuf := thrift.NewTMemoryBuffer()
	wp := fac.GetProtocol(wbuf)
	wc := m3thrift.NewM3ClientProtocol(wbuf, wp, wp)
	calc := &customtransport.TCalcTransport{}
	cp := fac.GetProtocol(calc)
	cc := m3thrift.NewM3ClientProtocol(calc, cp, cp)
	rt, _ := customtransport.NewTBufferedReadTransport(bytes.NewBuffer(nil))
	rp := fac.GetProtocol(rt)
	rh := &c16Handler{}
	proc := m3thrift.NewM3Processor(rh)
	for _, id := range c.Prefix {
		for _, p := range []thrift.TProtocol{wp, cp, rp} {
			p.WriteStructBegin("outer")
			p.WriteFieldBegin("f", thrift.I64, id)
		}
	}
	fail := func(pred, what string) { fails = append(fails, [2]string{pred, what}) }
	junk := []byte(c.Junk)
	feed := func(enc []byte) {
		rt.Write(append(append([]byte{}, enc...), junk...))
	}
	rest := func() []byte {
		var out []byte
		b := make([]byte, 64)
		for rt.RemainingBytes() > 0 {
			n, _ := rt.Read(b)
			out = append(out, b[:n]...)
		}
		return out
	}
	for oi := range c.Ops {
		op := &c.Ops[oi]
		wbuf.Reset()
		calc.ResetCount()
		o := c16Obs{Op: op.Op}
		switch op.Op {
		case "metric":
			m := c16ToMetric(op.M)
			m.Write(wp)
			m.Write(cp)
			o.Bytes, o.Calc = B(append([]byte{}, wbuf.Bytes()...)), calc.GetCount()
			var d m3thrift.Metric
			feed([]byte(o.Bytes))
			if err := d.Read(rp); err != nil {
				fail("decode_encode_is_identity", fmt.Sprintf("op %d: Metric.Read failed: %v", oi, err))
			} else if r := rest(); !c16MetricEq(&m, &d) || !bytes.Equal(r, junk) {
				o.Decoded = fmt.Sprintf("%s rest %x", c16Show(&d), r)
				fail("decode_encode_is_identity", fmt.Sprintf("op %d: Metric read back as %s (rest %x), written %s", oi, c16Show(&d), r, c16Show(&m)))
			}
			in = append(in, c16MetricEv(1, &m, nil, 0))
			obs = append(obs, Ev{K: 1, I: []int64{int64(o.Calc)}, S: []string{string(o.Bytes)}})
		case "batch", "emit":
			b := c16ToBatch(op)
			for i := range b.Metrics {
				in = append(in, c16MetricEv(3, &b.Metrics[i], nil, 0))
			}
			var d *m3thrift.MetricBatch
			if op.Op == "batch" {
				b.Write(wp)
				b.Write(cp)
				o.Bytes, o.Calc = B(append([]byte{}, wbuf.Bytes()...)), calc.GetCount()
				feed([]byte(o.Bytes))
				d = &m3thrift.MetricBatch{}
				if err := d.Read(rp); err != nil {
					fail("decode_encode_is_identity", fmt.Sprintf("op %d: MetricBatch.Read failed: %v", oi, err))
					d = nil
				}
				in = append(in, Ev{K: 2, I: []int64{b2i(b.CommonTags != nil)}, S: c16TagStrs(b.CommonTags)})
				obs = append(obs, Ev{K: 2, I: []int64{int64(o.Calc)}, S: []string{string(o.Bytes)}})
			} else {
				wc.SeqId, cc.SeqId = op.Seq-1, op.Seq-1
				wc.EmitMetricBatchV2(b)
				cc.EmitMetricBatchV2(b)
				o.Bytes, o.Calc = B(append([]byte{}, wbuf.Bytes()...)), calc.GetCount()
				if wc.SeqId != op.Seq {
					fail("decode_encode_is_identity", fmt.Sprintf("op %d: client sequence id %d, expected %d", oi, wc.SeqId, op.Seq))
				}
				// header as the server reads it
				feed([]byte(o.Bytes))
				name, typ, seq, err := rp.ReadMessageBegin()
				if err != nil || name != "emitMetricBatchV2" || typ != thrift.ONEWAY || seq != op.Seq {
					fail("decode_encode_is_identity", fmt.Sprintf("op %d: message header read back as (%q, %d, %d, %v), written (emitMetricBatchV2, %d, %d)", oi, name, typ, seq, err, thrift.ONEWAY, op.Seq))
				}
				// whole message through the generated processor
				feed([]byte(o.Bytes))
				rh.got = nil
				if ok, err := proc.Process(rp, rp); !ok || err != nil || rh.got == nil {
					fail("decode_encode_is_identity", fmt.Sprintf("op %d: M3Processor.Process failed: %v %v", oi, ok, err))
				} else {
					d = rh.got
				}
				in = append(in, Ev{K: 4, I: []int64{b2i(b.CommonTags != nil), int64(op.Seq)}, S: c16TagStrs(b.CommonTags)})
				obs = append(obs, Ev{K: 4, I: []int64{int64(o.Calc)}, S: []string{string(o.Bytes)}})
			}
			if d != nil {
				if r := rest(); !c16BatchEq(&b, d) || !bytes.Equal(r, junk) {
					o.Decoded = fmt.Sprintf("%d metrics, rest %x", len(d.Metrics), r)
					what := ""
					for i := range b.Metrics {
						if i < len(d.Metrics) && !c16MetricEq(&b.Metrics[i], &d.Metrics[i]) {
							what = fmt.Sprintf("; metric %d written %s read %s", i, c16Show(&b.Metrics[i]), c16Show(&d.Metrics[i]))
							break
						}
					}
					fail("decode_encode_is_identity", fmt.Sprintf("op %d: batch of %d metrics read back differently (%d metrics, common tags nil=%v/%v len %d/%d, rest %x)%s", oi,
						len(b.Metrics), len(d.Metrics), b.CommonTags == nil, d.CommonTags == nil, len(b.CommonTags), len(d.CommonTags), r, what))
				}
			}
		case "prebuilt":
			pm, rsize, err := c16Prebuilt(c.Proto, op)
			if err != nil {
				skipped = err.Error()
				continue
			}
			pm.Write(cp)
			if got := calc.GetCount(); got != rsize {
				fail("calc_equals_encoded_length", fmt.Sprintf("op %d: reporter measured %d for its pre-built metric, a fresh calculating protocol measures %d", oi, rsize, got))
			}
			calc.ResetCount()
			a := pm
			switch op.Kind {
			case 1:
				a.Value.Count = op.V
			case 2:
				a.Value.Gauge = math.Float64frombits(uint64(op.V))
			default:
				a.Value.Timer = op.V
			}
			a.Timestamp = op.Ts
			a.Write(wp)
			a.Write(cp)
			o.Bytes, o.Calc, o.RSize = B(append([]byte{}, wbuf.Bytes()...)), calc.GetCount(), rsize
			if int(rsize) < len(o.Bytes) {
				fail("max_placeholder_size_is_upper_bound", fmt.Sprintf("op %d: metric measured as %d bytes with placeholder values encodes to %d bytes with value %d at %d", oi, rsize, len(o.Bytes), op.V, op.Ts))
			}
			var d m3thrift.Metric
			feed([]byte(o.Bytes))
			if err := d.Read(rp); err != nil || !c16MetricEq(&a, &d) {
				fail("decode_encode_is_identity", fmt.Sprintf("op %d: reported metric read back as %s (%v), written %s", oi, c16Show(&d), err, c16Show(&a)))
			}
			rest()
			var ef uint32
			if op.Kind == 2 {
				ef = 1
			}
			in = append(in, c16MetricEv(5, &pm, []int64{op.V, op.Ts}, ef))
			obs = append(obs, Ev{K: 5, I: []int64{int64(rsize), int64(o.Calc)}, S: []string{string(o.Bytes)}})
		case "concurrent":
			ms, err := c16Concurrent(c.Proto, op)
			if err != nil {
				skipped = err.Error()
				continue
			}
			// every recorded size against the real encoder (and a fresh calculator); a bounded,
			// evenly spread sample plus the first disagreements go through the model
			step := len(ms)/40 + 1
			bad := 0
			for i := range ms {
				x := &ms[i]
				wbuf.Reset()
				calc.ResetCount()
				x.m.Write(wp)
				x.m.Write(cp)
				enc := append([]byte{}, wbuf.Bytes()...)
				ok := int(x.size) == len(enc) && calc.GetCount() == x.size
				if !ok {
					bad++
					if bad <= 3 {
						fail("calc_equals_encoded_length", fmt.Sprintf("op %d: %d goroutines allocating concurrently: %s: reporter recorded %d bytes for %s, the encoder writes %d bytes (a fresh calculator counts %d)",
							oi, op.G, x.what, x.size, c16Show(&x.m), len(enc), calc.GetCount()))
					}
				}
				// "the size measured with maximal placeholder values is an upper bound": the same
				// structure with the largest value and timestamp must not encode longer
				mx := x.m
				mx.Timestamp = math.MaxInt64
				mx.Value.Count, mx.Value.Timer = x.m.Value.Count, x.m.Value.Timer
				switch {
				case x.m.Value.Count != 0 || strings.Contains(x.what, "counter") || strings.Contains(x.what, "bucket"):
					mx.Value.Count = math.MinInt64
				case x.m.Value.Timer != 0 || strings.Contains(x.what, "timer"):
					mx.Value.Timer = math.MinInt64
				}
				wbuf.Reset()
				mx.Write(wp)
				if n := wbuf.Len(); n > int(x.size) && bad <= 3 {
					bad++
					fail("max_placeholder_size_is_upper_bound", fmt.Sprintf("op %d: %s: the reporter measured %d bytes for its pre-built %s, with an extreme value and timestamp it encodes to %d bytes",
						oi, x.what, x.size, c16Show(&x.m), n))
				}
				wbuf.Reset()
				if i%step == 0 || (!ok && bad <= 8) {
					in = append(in, c16MetricEv(6, &x.m, nil, 0))
					obs = append(obs, Ev{K: 6, I: []int64{int64(x.size)}, S: []string{string(enc)}})
				}
			}
			if bad > 3 {
				fail("calc_equals_encoded_length", fmt.Sprintf("op %d: %d of %d sizes recorded under concurrent allocation disagree with the encoder", oi, bad, len(ms)))
			}
			seen = append(seen, c16Obs{Op: fmt.Sprintf("concurrent: %d structures measured, %d disagree", len(ms), bad)})
			wbuf.Reset()
			calc.ResetCount()
			continue
		default:
			continue
		}
		if int(o.Calc) != len(o.Bytes) {
			fail("calc_equals_encoded_length", fmt.Sprintf("op %d (%s): calculating transport counted %d, encoder wrote %d bytes", oi, op.Op, o.Calc, len(o.Bytes)))
		}
		if len(o.Bytes) > 48 {
			o.Bytes = o.Bytes[:48] // the full bytes are in the Coq case; keep failure reports short
		}
		seen = append(seen, o)
	}
	return
}

func c16Term(idx int, c *c16Case, in, obs []Ev) string {
	par := []int64{int64(c.Proto), int64(len(c.Prefix))}
	for _, id := range c.Prefix {
		par = append(par, int64(id))
	}
	for _, b := range []byte(c.Junk) {
		par = append(par, int64(b))
	}
	return gcase(idx, par, in, obs)
}

func init() {
	props["C16"] = func(ctx *Ctx) {
		ctx.Header("ThriftCorr")
		ctx.Res.Rule = "case = (protocol, state the reused protocol objects are left in beforehand, trailing bytes, sequence of Metric.Write / MetricBatch.Write / EmitMetricBatchV2 / pre-built reporter metrics / concurrent allocation by 2..16 goroutines on the real reporter); generated from the seed; non-trivial = at least one operation that wrote a string or a list; distinct by case hash"
		skippedNote := false
		one := func(c *c16Case) {
			in, obs, seen, fails, skipped := c16Run(c)
			if skipped != "" && !skippedNote {
				skippedNote = true
				ctx.Note("pre-built reporter metrics skipped: %s", skipped)
			}
			nm, big := 0, 0
			kinds := ""
			for _, op := range c.Ops {
				nm += len(op.Metrics)
				if len(op.Metrics) >= 15 {
					big++
				}
				kinds += op.Op[:1]
			}
			cls := fmt.Sprintf("%s/ops=%s", map[int]string{0: "compact", 1: "binary"}[c.Proto], kinds)
			if len(kinds) > 2 {
				cls = fmt.Sprintf("%s/ops=%d", map[int]string{0: "compact", 1: "binary"}[c.Proto], len(kinds))
			}
			key := ""
			if len(obs) > 0 {
				key = hashOf(c)
			}
			idx := ctx.Res.Evaluations
			ctx.Case(c, c16Term(idx, c, in, obs), cls, key)
			for _, f := range fails {
				ctx.Fail(f[0], f[1], c, seen)
			}
		}
		if ctx.Replay != nil {
			var c c16Case
			if err := json.Unmarshal(ctx.Replay, &c); err != nil {
				fatal(err)
			}
			one(&c)
			return
		}
		for _, raw := range ctx.CorpusCases() {
			var c c16Case
			if json.Unmarshal(raw, &c) == nil && len(c.Ops) > 0 {
				one(&c)
			}
		}
		n := ctx.N(300, 4000)
		for i := 0; i < n; i++ {
			c := c16Gen(ctx.R, i, ctx.Thorough())
			one(&c)
		}
		for _, r := range c16Reporters {
			if r != nil {
				r.Close()
			}
		}
	}
}

var _ tally.CachedCount
