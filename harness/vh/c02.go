package main

// C02 — gauge freshness under every interleaving of one updating goroutine
// with concurrent report passes. Controlled schedules over the yield points
// in gauge.Update and gauge.report/cachedReport.

import (
	"encoding/json"
	"fmt"
	"math"
	"os"
	"path/filepath"
	"runtime"
	"sort"
	"strings"
	"sync"
	"sync/atomic"
	"time"

	tally "github.com/uber-go/tally/v4"
)

type c02Case struct {
	Cached bool    `json:"cached"`
	Vals   []int64 `json:"vals"`  // float64 bit patterns passed to Update, in order
	Reps   []int   `json:"reps"`  // passes per reporting goroutine
	Sched  []int   `json:"sched"` // thread picks: 0 = updater, 1.. = reporters, then two final reporters
}
type c02Out struct {
	Labels []int64 `json:"labels"`
	Vals   []int64 `json:"delivered"`
	Sched  []int   `json:"sched"`
	Idle   int     `json:"idle_pass_deliveries"`
	AfterQ int64   `json:"last_after_quiescence"`
	HasQ   bool    `json:"has_delivery"`
}

func c02Exec(c *c02Case, complete bool) (out c02Out, enabled []int) {
	log := &Log{}
	opts := tally.ScopeOptions{OmitCardinalityMetrics: true}
	if c.Cached {
		opts.CachedReporter = &RecCached{L: log, Caps: caps{true, true}}
	} else {
		opts.Reporter = &RecReporter{L: log, Caps: caps{true, true}}
	}
	scope, closer := tally.VerifNewRootScope(opts, 0, 1)
	g := scope.Gauge("g")
	ctl := NewCtl()
	setYield(ctl)
	defer func() {
		setYield(nil)
		closer.Close()
	}()
	ctl.Go(func() {
		for i, v := range c.Vals {
			if i > 0 {
				ctl.Yield(0)
			}
			g.Update(math.Float64frombits(uint64(v)))
		}
	})
	rep := func(n int) func() {
		return func() {
			for i := 0; i < n; i++ {
				if i > 0 {
					ctl.Yield(0)
				}
				tally.VerifReportOnce(scope)
			}
		}
	}
	for _, n := range c.Reps {
		ctl.Go(rep(n))
	}
	nmain := ctl.N()
	step := func(i int) {
		l := ctl.Step(i)
		if l == Stutter {
			l = Finished
		}
		if l == 22 {
			l = 21
		}
		out.Labels = append(out.Labels, int64(l))
		out.Sched = append(out.Sched, i)
	}
	for _, i := range c.Sched {
		if i < nmain {
			step(i)
		}
	}
	for i := 0; i < nmain; i++ {
		if !ctl.Done(i) {
			enabled = append(enabled, i)
		}
	}
	if !complete {
		ctl.Drain()
		return
	}
	for i := 0; i < nmain; i++ {
		for !ctl.Done(i) {
			step(i)
		}
	}
	f1 := ctl.Go(rep(1))
	for !ctl.Done(f1) {
		step(f1)
	}
	before := log.Len()
	f2 := ctl.Go(rep(1))
	for !ctl.Done(f2) {
		step(f2)
	}
	evs := log.Snapshot()
	for i, e := range evs {
		var v int64
		switch e.K {
		case 2:
			v = e.I[0]
		case 22:
			v = e.I[1]
		default:
			continue
		}
		out.Vals = append(out.Vals, v)
		if i >= before {
			out.Idle++
		} else {
			out.AfterQ, out.HasQ = v, true
		}
	}
	return
}

func c02Predicate(c *c02Case, out *c02Out) string {
	set := map[int64]bool{}
	for _, v := range c.Vals {
		set[v] = true
	}
	for _, v := range out.Vals {
		if !set[v] {
			return fmt.Sprintf("delivered %#x was never passed to Update", uint64(v))
		}
	}
	if len(out.Vals) > len(c.Vals) {
		return fmt.Sprintf("%d deliveries for %d updates", len(out.Vals), len(c.Vals))
	}
	if out.Idle != 0 {
		return fmt.Sprintf("a gauge not updated since its last delivery was delivered again (%d times)", out.Idle)
	}
	if len(c.Vals) > 0 {
		last := c.Vals[len(c.Vals)-1]
		if !out.HasQ || out.AfterQ != last {
			return fmt.Sprintf("after updates stopped and a report pass ran, the most recent delivery is %#x, last update %#x", uint64(out.AfterQ), uint64(last))
		}
	}
	return ""
}

func c02Term(idx int, c *c02Case, out *c02Out) string {
	in := []Ev{{K: 40, I: c.Vals, F: 0xffffffff}}
	for _, n := range c.Reps {
		in = append(in, Ev{K: 41, I: []int64{int64(n)}})
	}
	in = append(in, Ev{K: 41, I: []int64{1}}, Ev{K: 41, I: []int64{1}})
	s := make([]int64, len(out.Sched))
	for i, v := range out.Sched {
		s[i] = int64(v)
	}
	in = append(in, Ev{K: 42, I: s})
	obs := []Ev{{K: 43, I: out.Labels}, {K: 44, I: out.Vals, F: 0xffffffff}}
	return gcase(idx, []int64{b2i(c.Cached)}, in, obs)
}

func init() {
	props["C02"] = func(ctx *Ctx) {
		ctx.Header("GaugeCorr")
		ctx.Res.Rule = "case = (update values as float64 bit patterns incl. NaN payloads, +-0, +-Inf, subnormals; passes per reporting goroutine; reporter flavour; complete schedule over the yield points of gauge.Update/report); every schedule ends with one more pass and an idle pass; all interleavings of the small pool + seeded random schedules; non-trivial = a reporter or the updater was preempted inside Update/report; distinct by (pool, executed schedule)"
		nsched := 0
		one := func(c *c02Case) {
			out, _ := c02Exec(c, true)
			fail := c02Predicate(c, &out)
			key := ""
			for i := 1; i < len(out.Sched); i++ {
				if out.Sched[i] != out.Sched[i-1] && out.Labels[i-1] > 0 {
					key = hashOf([]interface{}{c.Vals, c.Reps, c.Cached, out.Sched})
				}
			}
			idx := ctx.Res.Evaluations
			cc := *c
			cc.Sched = out.Sched
			ctx.Case(cc, c02Term(idx, c, &out), fmt.Sprintf("updates=%d/reporters=%d", len(c.Vals), len(c.Reps)), key)
			nsched++
			if fail != "" {
				ctx.Fail("delivered_values_are_updates_and_fresh", fail, cc, out)
			}
		}
		if ctx.Replay != nil {
			var sp struct {
				Stress bool `json:"stress"`
				Cached bool `json:"cached"`
				Wait   bool `json:"updater_waits_for_delivery"`
			}
			if json.Unmarshal(ctx.Replay, &sp) == nil && sp.Stress {
				ctx.Case(sp, "", "uncontrolled-concurrent-passes", "")
				for k := 0; k < 200; k++ {
					if f := c02Stress(sp.Cached, sp.Wait); f != "" {
						ctx.Fail("delivered_values_are_updates_and_fresh", f, sp, nil)
						return
					}
				}
				return
			}
			var fu struct {
				First  bool   `json:"concurrent_first_use"`
				Cached bool   `json:"cached"`
				Par    int    `json:"goroutines"`
				Seed   uint64 `json:"seed"`
			}
			if json.Unmarshal(ctx.Replay, &fu) == nil && fu.First {
				ctx.Case(fu, "", "concurrent-first-use-of-one-gauge", "")
				for k := 0; k < 20; k++ {
					if f := c02FirstUse(fu.Cached, 400, fu.Par, fu.Seed+uint64(k)); f != "" {
						ctx.Fail("delivered_values_are_updates_and_fresh", f, fu, nil)
						return
					}
				}
				return
			}
			var cm struct {
				R      bool `json:"caller_map_reuse"`
				Cached bool `json:"cached"`
				PT     bool `json:"parent_tagged"`
				San    bool `json:"sanitizer"`
			}
			if json.Unmarshal(ctx.Replay, &cm) == nil && cm.R {
				ctx.Case(cm, "", "caller-map-reused-after-tagged", "")
				if f := callerMapReuse(1, cm.Cached, cm.PT, cm.San); f != "" {
					ctx.Fail("delivered_values_are_updates_and_fresh", f, cm, nil)
				}
				return
			}
			var st struct {
				Kind   string `json:"stalled_delivery"`
				Cached bool   `json:"cached"`
				Which  int    `json:"stalled_scope"`
			}
			if json.Unmarshal(ctx.Replay, &st) == nil && st.Kind != "" {
				ctx.Case(st, "", "stalled-delivery-"+st.Kind, "")
				for k := 0; k < 6; k++ {
					f := ""
					if st.Kind == "overlapping-pass" {
						f = c02Overlap(st.Cached)
					} else {
						f = c02CloseInFlight(st.Cached, st.Which)
					}
					if f != "" {
						ctx.Fail("delivered_values_are_updates_and_fresh", f, st, nil)
						return
					}
				}
				return
			}
			var cy c02CycleCase
			if json.Unmarshal(ctx.Replay, &cy) == nil && cy.Cycle {
				ctx.Case(cy, "", "close-and-reobtain-cycles", "")
				if f := c02Cycle(&cy); f != "" {
					ctx.Fail("delivered_values_are_updates_and_fresh", f, cy, nil)
				}
				return
			}
			var rcg regCase
			if json.Unmarshal(ctx.Replay, &rcg) == nil && rcg.Gauges && len(rcg.Progs) > 0 {
				regReplay(ctx, "delivered_values_are_updates_and_fresh")
				return
			}
			var c c02Case
			if err := json.Unmarshal(ctx.Replay, &c); err != nil {
				fatal(err)
			}
			one(&c)
			return
		}
		for _, raw := range ctx.CorpusCases() {
			var c c02Case
			if json.Unmarshal(raw, &c) == nil {
				one(&c)
			}
		}
		exhaust := func(base c02Case, limit int) int {
			count := 0
			var rec func(prefix []int)
			rec = func(prefix []int) {
				if count >= limit {
					return
				}
				c := base
				c.Sched = prefix
				_, enabled := c02Exec(&c, false)
				if len(enabled) == 0 {
					one(&c)
					count++
					return
				}
				for _, i := range enabled {
					rec(append(append([]int(nil), prefix...), i))
				}
			}
			rec(nil)
			return count
		}
		nan1 := int64(0x7ff8000000000123)
		n1 := exhaust(c02Case{Cached: false, Vals: []int64{fbits(1.5), nan1}, Reps: []int{1, 1}}, 100000)
		ctx.Res.SchedExhaustive = true
		ctx.Res.Extra["exhaustive_pool_2updates_2rep1"] = n1
		if ctx.Thorough() {
			n2 := exhaust(c02Case{Cached: true, Vals: []int64{fbits(math.Copysign(0, -1)), fbits(math.Inf(1)), 1}, Reps: []int{2, 2}}, 60000)
			ctx.Res.Extra["exhaustive_pool_3updates_2rep2_cached"] = n2
		}
		n := ctx.N(300, 6000)
		for k := 0; k < n; k++ {
			r := ctx.R
			c := c02Case{Cached: r.Bool()}
			for j, nj := 0, r.Range(0, 4); j < nj; j++ {
				c.Vals = append(c.Vals, fbits(r.F64()))
			}
			for i, ni := 0, r.Range(1, 3); i < ni; i++ {
				c.Reps = append(c.Reps, r.Range(0, 3))
			}
			nt := 1 + len(c.Reps)
			for j := 0; j < 40; j++ {
				c.Sched = append(c.Sched, r.Intn(nt))
			}
			one(&c)
		}
		ctx.Res.Schedules = nsched
		// uncontrolled: the updater against three goroutines running report passes at once (the ticker,
		// Close and a re-request of a closed scope can run passes at the same time; the atomic
		// operations of Update / report have no yield point inside). Direct predicates only.
		rounds := ctx.N(30, 1000)
		bad := 0
		for k := 0; k < rounds; k++ {
			cached, wait := k%2 == 1, k%4 < 2
			f := c02Stress(cached, wait)
			cs := map[string]interface{}{"stress": true, "cached": cached, "updater_waits_for_delivery": wait}
			ctx.Case(cs, "", "uncontrolled-concurrent-passes", "")
			if f != "" {
				bad++
				if bad == 1 {
					ctx.Fail("delivered_values_are_updates_and_fresh", f, cs, nil)
				}
			}
		}
		ctx.Res.Extra["stress_rounds_failed"] = bad
		// many gauges in one scope, each updated, one pass: every gauge's last update is delivered, once
		for _, n := range []int{1, 2, 15, 16, 17, 18, 31, 32, 33, 40, 100, 257} {
			for _, cached := range []bool{false, true} {
				cs := map[string]interface{}{"many_gauges": n, "cached": cached}
				ctx.Case(cs, "", "many-gauges-in-one-scope", "")
				if f := c02Many(n, cached); f != "" {
					ctx.Fail("delivered_values_are_updates_and_fresh", f, cs, nil)
				}
			}
		}
		// handles of a scope that was closed and dropped stay harmless for every OTHER gauge: updates
		// through them never show up as a delivery of a gauge they were not made on
		for k := 0; k < 6; k++ {
			cs := map[string]interface{}{"stale_handles": true, "cached": k%2 == 1, "rounds": 40}
			ctx.Case(cs, "", "updates-through-handles-of-dropped-scopes", "")
			if f := c02Stale(k%2 == 1, 40); f != "" {
				ctx.Fail("delivered_values_are_updates_and_fresh", f, cs, nil)
			}
		}
		// the caller re-uses the map it handed to Tagged: every gauge is delivered under the tags its
		// scope was derived with
		for k := 0; k < 8; k++ {
			cs := map[string]interface{}{"caller_map_reuse": true, "cached": k&1 == 1, "parent_tagged": k&2 == 2, "sanitizer": k&4 == 4}
			ctx.Case(cs, "", "caller-map-reused-after-tagged", "")
			if f := callerMapReuse(1, k&1 == 1, k&2 == 2, k&4 == 4); f != "" {
				ctx.Fail("delivered_values_are_updates_and_fresh", f, cs, nil)
			}
		}
		// a delivery stalled inside the reporter: a second pass; root Close with the real ticker
		for k := 0; k < 2; k++ {
			cs := map[string]interface{}{"stalled_delivery": "overlapping-pass", "cached": k == 1}
			ctx.Case(cs, "", "stalled-delivery-overlapping-pass", "")
			if f := c02Overlap(k == 1); f != "" {
				ctx.Fail("delivered_values_are_updates_and_fresh", f, cs, nil)
			}
		}
		for k := 0; k < 12; k++ {
			cs := map[string]interface{}{"stalled_delivery": "root-close", "cached": k%2 == 1, "stalled_scope": k / 2 % 3}
			ctx.Case(cs, "", "stalled-delivery-root-close", "")
			if f := c02CloseInFlight(k%2 == 1, k/2%3); f != "" {
				ctx.Fail("delivered_values_are_updates_and_fresh", f, cs, nil)
				break
			}
		}
		// goroutines obtaining the same new gauge at the same moment share one gauge
		for k, nk := 0, ctx.N(4, 40); k < nk; k++ {
			cs := map[string]interface{}{"concurrent_first_use": true, "cached": k%2 == 1, "goroutines": 2 + k%3*2, "seed": ctx.R.U64() >> 1}
			ctx.Case(cs, "", "concurrent-first-use-of-one-gauge", "")
			if f := c02FirstUse(k%2 == 1, 400, 2+k%3*2, cs["seed"].(uint64)); f != "" {
				ctx.Fail("delivered_values_are_updates_and_fresh", f, cs, nil)
				break
			}
		}
		// subscopes obtained through spellings that one sanitizer merges, closed and obtained again
		for k, nk := 0, ctx.N(400, 6000); k < nk; k++ {
			cy := c02GenCycle(ctx.R)
			ctx.Case(cy, "", "close-and-reobtain-cycles", "")
			if f := c02Cycle(&cy); f != "" {
				ctx.Fail("delivered_values_are_updates_and_fresh", f, cy, nil)
				break
			}
		}
		// a gauge is being registered in the same scope (the first-use call holds the scope's gauge lock
		// inside the reporter's Allocate) while the first pass after the last update runs
		for _, cached := range []bool{true} {
			cs := map[string]interface{}{"registration_during_pass": true, "cached": cached}
			ctx.Case(cs, "", "registration-overlapping-the-pass", "")
			if f := c02RegDuringPass(); f != "" {
				ctx.Fail("delivered_values_are_updates_and_fresh", f, cs, nil)
			}
		}
		// obtain / update / Close / obtain again interleaved with report passes under the schedule
		// controller, over the registry's yield points (a pass parked between finding a closed scope and
		// removing it, another goroutine re-obtaining, updating and closing the same identity meanwhile):
		// the last update before a Close, or a later one, is delivered; a live scope's last update is
		// the most recent delivery after a complete pass
		if ctx.Corpus != "" { // C07's stored schedules first, with a gauge per scope
			files, _ := filepath.Glob(filepath.Join(ctx.Corpus, "C07", "corpus", "*.json"))
			sort.Strings(files)
			for _, f := range files {
				raw, err := os.ReadFile(f)
				var rc regCase
				if err != nil || json.Unmarshal(raw, &rc) != nil || len(rc.Progs) == 0 {
					continue
				}
				rc.Gauges = true
				out, _ := c07Exec(&rc, true)
				cc := rc
				cc.Sched = out.Sched
				ctx.Case(cc, "", "registry-cycles-under-schedule", "")
				if fail := regPredicate(&out); fail != "" {
					ctx.Fail("delivered_values_are_updates_and_fresh", "registry cycles: "+fail, cc, out)
				}
			}
		}
		regCrossStreamG(ctx, ctx.N(500, 5000), "delivered_values_are_updates_and_fresh", true)
	}
}

// c02Many: n gauges in one scope; two updates each, a pass, a third update for the odd ones, a pass.
func c02Many(n int, cached bool) string {
	log := &Log{}
	opts := tally.ScopeOptions{OmitCardinalityMetrics: true}
	if cached {
		opts.CachedReporter = &RecCached{L: log, Caps: caps{true, true}}
	} else {
		opts.Reporter = &RecReporter{L: log, Caps: caps{true, true}}
	}
	root, closer := tally.VerifNewRootScope(opts, 0, 1)
	defer closer.Close()
	sc := root.SubScope("many")
	gs := make([]tally.Gauge, n)
	for i := range gs {
		gs[i] = sc.Gauge(fmt.Sprintf("g%d", i))
		gs[i].Update(float64(1000 + i))
		gs[i].Update(float64(2000 + i))
	}
	tally.VerifReportOnce(root)
	for i := range gs {
		if i%2 == 1 {
			gs[i].Update(float64(3000 + i))
		}
	}
	tally.VerifReportOnce(root)
	tally.VerifReportOnce(root)
	got := map[string][]float64{}
	alloc := map[int64]string{}
	for _, e := range log.Snapshot() {
		switch e.K {
		case 2:
			got[e.S[0]] = append(got[e.S[0]], fF(e.I[0]))
		case 12:
			alloc[e.I[0]] = e.S[0]
		case 22:
			got[alloc[e.I[0]]] = append(got[alloc[e.I[0]]], fF(e.I[1]))
		}
	}
	for i := range gs {
		want := []float64{float64(2000 + i)}
		if i%2 == 1 {
			want = append(want, float64(3000+i))
		}
		g := got[fmt.Sprintf("many.g%d", i)]
		if fmt.Sprint(g) != fmt.Sprint(want) {
			return fmt.Sprintf("%d gauges in one scope: gauge %d was updated to %v before the first pass and %s before the second; delivered %v, expected %v",
				n, i, 2000+i, map[bool]string{true: fmt.Sprint(3000 + i), false: "not again"}[i%2 == 1], g, want)
		}
	}
	return ""
}

// c02Stale: per round a subscope with gauges is used, closed and dropped by a pass; new gauges are
// registered elsewhere and updated; the old handles are updated with values no live gauge was ever given;
// every delivery of a live gauge must be a value passed to Update on THAT gauge.
func c02Stale(cached bool, rounds int) string {
	log := &Log{}
	opts := tally.ScopeOptions{OmitCardinalityMetrics: true}
	if cached {
		opts.CachedReporter = &RecCached{L: log, Caps: caps{true, true}}
	} else {
		opts.Reporter = &RecReporter{L: log, Caps: caps{true, true}}
	}
	root, closer := tally.VerifNewRootScope(opts, 0, 1)
	defer closer.Close()
	given := map[string]map[float64]bool{} // live gauge name -> values passed to Update
	upd := func(name string, g tally.Gauge, v float64) {
		if given[name] == nil {
			given[name] = map[float64]bool{}
		}
		given[name][v] = true
		g.Update(v)
	}
	var stale []tally.Gauge
	for r := 0; r < rounds; r++ {
		sub := root.Tagged(map[string]string{"round": fmt.Sprint(r)})
		var mine []tally.Gauge
		for i := 0; i < 3; i++ {
			g := sub.Gauge(fmt.Sprintf("old%d", i))
			g.Update(float64(-1000 - r))
			mine = append(mine, g)
		}
		sub.(interface{ Close() error }).Close()
		tally.VerifReportOnce(root) // reports and drops the closed subscope
		stale = append(stale, mine...)
		for i := 0; i < 3; i++ {
			name := fmt.Sprintf("live%d_%d", r, i)
			upd(name, root.Gauge(name), float64(10+i))
		}
		tally.VerifReportOnce(root)
		for j, g := range stale {
			g.Update(float64(900000 + r*1000 + j)) // through handles of dropped scopes
		}
		tally.VerifReportOnce(root)
	}
	alloc := map[int64]string{}
	for _, e := range log.Snapshot() {
		var name string
		var v float64
		switch e.K {
		case 2:
			name, v = e.S[0], fF(e.I[0])
		case 12:
			alloc[e.I[0]] = e.S[0]
			continue
		case 22:
			name, v = alloc[e.I[0]], fF(e.I[1])
		default:
			continue
		}
		if strings.HasPrefix(name, "live") && !given[name][v] {
			return fmt.Sprintf("gauge %q was delivered with %v, a value never passed to Update on it (it was only ever updated with %v; %v-like values were passed to Update through handles of subscopes that had been closed and dropped before)", name, v, given[name], 900000)
		}
	}
	return ""
}

// c02SlowAlloc: a cached reporter whose AllocateGauge for the name "slow" blocks until released.
type c02SlowAlloc struct {
	*RecCached
	entered chan struct{}
	release chan struct{}
}

func (r *c02SlowAlloc) AllocateGauge(name string, tags map[string]string) tally.CachedGauge {
	if strings.HasSuffix(name, "slow") {
		close(r.entered)
		<-r.release
	}
	return r.RecCached.AllocateGauge(name, tags)
}

func c02RegDuringPass() string {
	log := &Log{}
	rep := &c02SlowAlloc{RecCached: &RecCached{L: log, Caps: caps{true, true}}, entered: make(chan struct{}), release: make(chan struct{})}
	root, closer := tally.VerifNewRootScope(tally.ScopeOptions{OmitCardinalityMetrics: true, CachedReporter: rep}, 0, 1)
	defer closer.Close()
	sc := root.SubScope("s")
	g := sc.Gauge("g")
	g.Update(1)
	tally.VerifReportOnce(root)
	g.Update(42.5) // the last update
	var wg sync.WaitGroup
	wg.Add(1)
	go func() { defer wg.Done(); sc.Gauge("slow").Update(7) }()
	<-rep.entered // the registering goroutine holds the scope's gauge lock, inside Allocate
	passDone := make(chan struct{})
	go func() { tally.VerifReportOnce(root); close(passDone) }() // the first pass that starts after the last update
	// let the pass reach the scope (it may have to wait for the lock), then let the registration finish
	for i := 0; i < 2000; i++ {
		runtime.Gosched()
	}
	time.Sleep(2 * time.Millisecond)
	close(rep.release)
	<-passDone
	wg.Wait()
	last := math.NaN()
	alloc := map[int64]string{}
	for _, e := range log.Snapshot() {
		if e.K == 12 {
			alloc[e.I[0]] = e.S[0]
		}
		if e.K == 22 && alloc[e.I[0]] == "s.g" {
			last = fF(e.I[1])
		}
	}
	if last != 42.5 {
		return fmt.Sprintf("updates stopped with Update(42.5); the first pass that started afterwards ran while another gauge of the same scope was being registered; when it had completed the reporter's most recent value for the gauge was %v", last)
	}
	return ""
}

// c02Sink counts gauge deliveries (plain and cached interface).
type c02Sink struct {
	n    int64  // deliveries
	last uint64 // bits of the most recent delivery
	cnt  []int32 // deliveries per value
	bad  uint64 // bits of a delivered value outside 1..max (0 = none)
	max  float64
}

func (s *c02Sink) Capabilities() tally.Capabilities { return caps{true, true} }
func (s *c02Sink) Flush()                           {}
func (s *c02Sink) got(v float64) {
	atomic.StoreUint64(&s.last, math.Float64bits(v))
	if !(v >= 1 && v <= s.max && v == math.Trunc(v)) {
		atomic.StoreUint64(&s.bad, math.Float64bits(v)|1<<63)
	}
	if v >= 1 && v <= s.max && v == math.Trunc(v) {
		atomic.AddInt32(&s.cnt[int(v)], 1)
	}
	atomic.AddInt64(&s.n, 1)
}
func (s *c02Sink) ReportCounter(string, map[string]string, int64)       {}
func (s *c02Sink) ReportGauge(_ string, _ map[string]string, v float64) { s.got(v) }
func (s *c02Sink) ReportTimer(string, map[string]string, time.Duration) {}
func (s *c02Sink) ReportHistogramValueSamples(string, map[string]string, tally.Buckets, float64, float64, int64) {
}
func (s *c02Sink) ReportHistogramDurationSamples(string, map[string]string, tally.Buckets, time.Duration, time.Duration, int64) {
}

type c02SinkC struct{ *c02Sink }
type c02Gauge struct{ s *c02Sink }

func (g c02Gauge) ReportGauge(v float64) { g.s.got(v) }
func (c c02SinkC) AllocateCounter(string, map[string]string) tally.CachedCount { return nil }
func (c c02SinkC) AllocateGauge(string, map[string]string) tally.CachedGauge   { return c02Gauge{c.c02Sink} }
func (c c02SinkC) AllocateTimer(string, map[string]string) tally.CachedTimer   { return nil }
func (c c02SinkC) AllocateHistogram(string, map[string]string, tally.Buckets) tally.CachedHistogram {
	return nil
}

// c02Stress: one goroutine updates a gauge with 1, 2, .., n while three goroutines run report passes.
// wait = the updater waits (bounded) until its value has been delivered before the next Update, so that
// every update is delivered and a second delivery of any of them makes deliveries exceed updates;
// otherwise the updates come in pairs at once (the second while the first may still be undelivered),
// followed by a pause in which every reporting goroutine completes two more passes - updates have
// stopped and passes have started afterwards, so the pair's last value must have been delivered.
func c02Stress(cached, wait bool) string {
	const n = 400
	sink := &c02Sink{max: n, cnt: make([]int32, n+1)}
	opts := tally.ScopeOptions{OmitCardinalityMetrics: true}
	if cached {
		opts.CachedReporter = c02SinkC{sink}
	} else {
		opts.Reporter = sink
	}
	scope, closer := tally.VerifNewRootScope(opts, 0, 2)
	g := scope.Tagged(map[string]string{"a": "b"}).Gauge("g")
	stop := make(chan struct{})
	var rg sync.WaitGroup
	var done [3]int64
	for p := 0; p < 3; p++ {
		p := p
		rg.Add(1)
		go func() {
			defer rg.Done()
			for {
				select {
				case <-stop:
					return
				default:
				}
				tally.VerifReportOnce(scope)
				atomic.AddInt64(&done[p], 1)
			}
		}()
	}
	fail := ""
	for i := 1; i <= n && fail == ""; i++ {
		g.Update(float64(i))
		if wait {
			for spin := 0; spin < 200000 && atomic.LoadInt32(&sink.cnt[i]) == 0; spin++ {
				runtime.Gosched()
			}
		} else if i%2 == 0 {
			var base [3]int64
			for p := range base {
				base[p] = atomic.LoadInt64(&done[p])
			}
			for p := range base {
				for atomic.LoadInt64(&done[p]) < base[p]+2 {
					runtime.Gosched()
				}
			}
			if atomic.LoadInt32(&sink.cnt[i]) == 0 {
				fail = fmt.Sprintf("concurrent report passes: Update(%d) right after Update(%d), then no further update; every reporting goroutine has since completed two more passes, but %d was never delivered (most recent delivered value: %v)",
					i, i-1, i, math.Float64frombits(atomic.LoadUint64(&sink.last)))
			}
		}
	}
	close(stop)
	rg.Wait()
	tally.VerifReportOnce(scope)
	deliveries := atomic.LoadInt64(&sink.n)
	closer.Close()
	if b := atomic.LoadUint64(&sink.bad); b != 0 {
		return fmt.Sprintf("concurrent report passes: a value was delivered (bits %#x) that was never passed to Update (updates were 1..%d)", b&^(1<<63), n)
	}
	if fail != "" {
		return fail
	}
	if deliveries > n {
		return fmt.Sprintf("concurrent report passes: %d updates were made, %d deliveries arrived (deliveries exceed updates: some update was delivered again)", n, deliveries)
	}
	return ""
}
