package main

// C02 — gauge freshness under every interleaving of one updating goroutine
// with concurrent report passes. Controlled schedules over the yield points
// in gauge.Update and gauge.report/cachedReport.

import (
	"encoding/json"
	"fmt"
	"math"

	tally "github.com/uber-go/tally/v4"
)

type c02Case struct {
	Cached bool    `json:"cached"`
	Vals   []int64 `json:"vals"`  // float64 bit patterns passed to Update, in order
	Reps   []int   `json:"reps"`  // passes per reporting goroutine
	Sched  []int   `json:"sched"` // thread picks: 0 = updater, 1.. = reporters, then two final reporters
}
type c02Out struct {
	Labels []int64 `json:"labels"`
	Vals   []int64 `json:"delivered"`
	Sched  []int   `json:"sched"`
	Idle   int     `json:"idle_pass_deliveries"`
	AfterQ int64   `json:"last_after_quiescence"`
	HasQ   bool    `json:"has_delivery"`
}

func c02Exec(c *c02Case, complete bool) (out c02Out, enabled []int) {
	log := &Log{}
	opts := tally.ScopeOptions{OmitCardinalityMetrics: true}
	if c.Cached {
		opts.CachedReporter = &RecCached{L: log, Caps: caps{true, true}}
	} else {
		opts.Reporter = &RecReporter{L: log, Caps: caps{true, true}}
	}
	scope, closer := tally.VerifNewRootScope(opts, 0, 1)
	g := scope.Gauge("g")
	ctl := NewCtl()
	setYield(ctl)
	defer func() {
		setYield(nil)
		closer.Close()
	}()
	ctl.Go(func() {
		for i, v := range c.Vals {
			if i > 0 {
				ctl.Yield(0)
			}
			g.Update(math.Float64frombits(uint64(v)))
		}
	})
	rep := func(n int) func() {
		return func() {
			for i := 0; i < n; i++ {
				if i > 0 {
					ctl.Yield(0)
				}
				tally.VerifReportOnce(scope)
			}
		}
	}
	for _, n := range c.Reps {
		ctl.Go(rep(n))
	}
	nmain := ctl.N()
	step := func(i int) {
		l := ctl.Step(i)
		if l == Stutter {
			l = Finished
		}
		if l == 22 {
			l = 21
		}
		out.Labels = append(out.Labels, int64(l))
		out.Sched = append(out.Sched, i)
	}
	for _, i := range c.Sched {
		if i < nmain {
			step(i)
		}
	}
	for i := 0; i < nmain; i++ {
		if !ctl.Done(i) {
			enabled = append(enabled, i)
		}
	}
	if !complete {
		ctl.Drain()
		return
	}
	for i := 0; i < nmain; i++ {
		for !ctl.Done(i) {
			step(i)
		}
	}
	f1 := ctl.Go(rep(1))
	for !ctl.Done(f1) {
		step(f1)
	}
	before := log.Len()
	f2 := ctl.Go(rep(1))
	for !ctl.Done(f2) {
		step(f2)
	}
	evs := log.Snapshot()
	for i, e := range evs {
		var v int64
		switch e.K {
		case 2:
			v = e.I[0]
		case 22:
			v = e.I[1]
		default:
			continue
		}
		out.Vals = append(out.Vals, v)
		if i >= before {
			out.Idle++
		} else {
			out.AfterQ, out.HasQ = v, true
		}
	}
	return
}

func c02Predicate(c *c02Case, out *c02Out) string {
	set := map[int64]bool{}
	for _, v := range c.Vals {
		set[v] = true
	}
	for _, v := range out.Vals {
		if !set[v] {
			return fmt.Sprintf("delivered %#x was never passed to Update", uint64(v))
		}
	}
	if len(out.Vals) > len(c.Vals) {
		return fmt.Sprintf("%d deliveries for %d updates", len(out.Vals), len(c.Vals))
	}
	if out.Idle != 0 {
		return fmt.Sprintf("a gauge not updated since its last delivery was delivered again (%d times)", out.Idle)
	}
	if len(c.Vals) > 0 {
		last := c.Vals[len(c.Vals)-1]
		if !out.HasQ || out.AfterQ != last {
			return fmt.Sprintf("after updates stopped and a report pass ran, the most recent delivery is %#x, last update %#x", uint64(out.AfterQ), uint64(last))
		}
	}
	return ""
}

func c02Term(idx int, c *c02Case, out *c02Out) string {
	in := []Ev{{K: 40, I: c.Vals, F: 0xffffffff}}
	for _, n := range c.Reps {
		in = append(in, Ev{K: 41, I: []int64{int64(n)}})
	}
	in = append(in, Ev{K: 41, I: []int64{1}}, Ev{K: 41, I: []int64{1}})
	s := make([]int64, len(out.Sched))
	for i, v := range out.Sched {
		s[i] = int64(v)
	}
	in = append(in, Ev{K: 42, I: s})
	obs := []Ev{{K: 43, I: out.Labels}, {K: 44, I: out.Vals, F: 0xffffffff}}
	return gcase(idx, []int64{b2i(c.Cached)}, in, obs)
}

func init() {
	props["C02"] = func(ctx *Ctx) {
		ctx.Header("GaugeCorr")
		ctx.Res.Rule = "case = (update values as float64 bit patterns incl. NaN payloads, +-0, +-Inf, subnormals; passes per reporting goroutine; reporter flavour; complete schedule over the yield points of gauge.Update/report); every schedule ends with one more pass and an idle pass; all interleavings of the small pool + seeded random schedules; non-trivial = a reporter or the updater was preempted inside Update/report; distinct by (pool, executed schedule)"
		nsched := 0
		one := func(c *c02Case) {
			out, _ := c02Exec(c, true)
			fail := c02Predicate(c, &out)
			key := ""
			for i := 1; i < len(out.Sched); i++ {
				if out.Sched[i] != out.Sched[i-1] && out.Labels[i-1] > 0 {
					key = hashOf([]interface{}{c.Vals, c.Reps, c.Cached, out.Sched})
				}
			}
			idx := ctx.Res.Evaluations
			cc := *c
			cc.Sched = out.Sched
			ctx.Case(cc, c02Term(idx, c, &out), fmt.Sprintf("updates=%d/reporters=%d", len(c.Vals), len(c.Reps)), key)
			nsched++
			if fail != "" {
				ctx.Fail("delivered_values_are_updates_and_fresh", fail, cc, out)
			}
		}
		if ctx.Replay != nil {
			var c c02Case
			if err := json.Unmarshal(ctx.Replay, &c); err != nil {
				fatal(err)
			}
			one(&c)
			return
		}
		for _, raw := range ctx.CorpusCases() {
			var c c02Case
			if json.Unmarshal(raw, &c) == nil {
				one(&c)
			}
		}
		exhaust := func(base c02Case, limit int) int {
			count := 0
			var rec func(prefix []int)
			rec = func(prefix []int) {
				if count >= limit {
					return
				}
				c := base
				c.Sched = prefix
				_, enabled := c02Exec(&c, false)
				if len(enabled) == 0 {
					one(&c)
					count++
					return
				}
				for _, i := range enabled {
					rec(append(append([]int(nil), prefix...), i))
				}
			}
			rec(nil)
			return count
		}
		nan1 := int64(0x7ff8000000000123)
		n1 := exhaust(c02Case{Cached: false, Vals: []int64{fbits(1.5), nan1}, Reps: []int{1, 1}}, 100000)
		ctx.Res.SchedExhaustive = true
		ctx.Res.Extra["exhaustive_pool_2updates_2rep1"] = n1
		if ctx.Thorough() {
			n2 := exhaust(c02Case{Cached: true, Vals: []int64{fbits(math.Copysign(0, -1)), fbits(math.Inf(1)), 1}, Reps: []int{2, 2}}, 60000)
			ctx.Res.Extra["exhaustive_pool_3updates_2rep2_cached"] = n2
		}
		n := ctx.N(300, 6000)
		for k := 0; k < n; k++ {
			r := ctx.R
			c := c02Case{Cached: r.Bool()}
			for j, nj := 0, r.Range(0, 4); j < nj; j++ {
				c.Vals = append(c.Vals, fbits(r.F64()))
			}
			for i, ni := 0, r.Range(1, 3); i < ni; i++ {
				c.Reps = append(c.Reps, r.Range(0, 3))
			}
			nt := 1 + len(c.Reps)
			for j := 0; j < 40; j++ {
				c.Sched = append(c.Sched, r.Intn(nt))
			}
			one(&c)
		}
		ctx.Res.Schedules = nsched
	}
}
