package main

// C05 — equal identities share one scope and metric; different identities
// never merge; the public map-key function. Streams:
//   main       derivation programs that permute / regroup / re-apply the same
//              tag assignments (and commute them with SubScope), through
//              sanitizer-fixed delimiter-free inputs, shard counts 1..64,
//              plain / cached / test roots; key cases compared byte for byte
//              with the model;
//   empty-key  witnesses of F05a (an empty tag key defeats the duplicate
//              suppression of the key writer);
//   delims     witnesses of F05b ('+', ',', '=' inside keys / values);
//   first-use  two (three) goroutines ask one scope for the same fresh metric at once, all
//              interleavings over the getters' yield points, four kinds, both reporter flavours.

import (
	"encoding/json"
	"fmt"
)

var c05Keys = []string{"a", "b", "c", "k1", "env", "é", "\xff", "a-b", "a_b", "A b", "x.y", "日本", "ab", "a\x00", "zone"}
var c05Vals = []string{"", "1", "2", "v", "a=b", "é", "\xfe\xff", "a b", "x.y", "a-b", "a_b", "prod", "=", "v=1=2"}
var c05Names = []string{"a", "b", "svc", "x.y", "a+b", "n,m=1", "é", "\xff", ".", "A b", "日本", "", "+"}
var c05Prefixes = []string{"", "p", "a.b", "p+q", "é", "x,y=z"}
var c05Seps = []string{"", ".", "_", "+", "::", "é"}

func pickShards(r *Rng) int {
	if r.Chance(70) {
		return []int{1, 2, 16, 64}[r.Intn(4)]
	}
	return r.Range(1, 64)
}

// fixedStr picks a string the sanitizer leaves unchanged (the image of a
// sanitizer is fixed by it) that satisfies ok.
func fixedStr(r *Rng, alpha []string, f func(string) string, ok func(string) bool) string {
	for i := 0; i < 50; i++ {
		s := f(alpha[r.Intn(len(alpha))])
		if f(s) == s && ok(s) {
			return s
		}
	}
	return "k"
}

func c05GenDeriv(r *Rng, i int) dCase {
	c := dCase{Mode: "deriv", Stream: "main", Shards: pickShards(r), Rep: []string{"plain", "cached", "test"}[r.Intn(3)]}
	if c.Rep != "test" && r.Chance(35) {
		c.San = r.Range(1, len(sanConfigs)-1)
	}
	san := sanitizerOf(c.San)
	c.Prefix = B(r.Pick(c05Prefixes))
	if c.Rep != "test" {
		c.Sep = B(r.Pick(c05Seps))
	}
	key := func() string {
		return fixedStr(r, c05Keys, san.Key, func(s string) bool { return s != "" && kclean(s) })
	}
	val := func() string { return fixedStr(r, c05Vals, san.Value, vclean) }
	name := func() string { return c05Names[r.Intn(len(c05Names))] }
	// root tags
	for n := r.Intn(3); n > 0; n-- {
		k := key()
		dup := false
		for _, p := range c.RootTags {
			dup = dup || string(p[0]) == k
		}
		if !dup {
			c.RootTags = append(c.RootTags, kv{B(k), B(val())})
		}
	}
	// the assignments to permute: distinct keys (possibly overriding a root tag)
	var asg []kv
	for n := r.Range(1, 4); n > 0; n-- {
		k := key()
		dup := false
		for _, p := range asg {
			dup = dup || string(p[0]) == k
		}
		if !dup {
			asg = append(asg, kv{B(k), B(val())})
		}
	}
	var names []string
	for n := r.Intn(3); n > 0; n-- {
		names = append(names, name())
	}
	mkind, mname := r.Range(1, 4), name()
	nScopes := 0
	// one program: the assignments in a random order and grouping, earlier
	// losing values for some keys, the subscope names in order at random
	// positions; variant > 0 changes the identity
	program := func(variant int) {
		perm := append([]kv(nil), asg...)
		for j := len(perm) - 1; j > 0; j-- {
			k := r.Intn(j + 1)
			perm[j], perm[k] = perm[k], perm[j]
		}
		if variant == 1 && len(perm) > 0 {
			j := r.Intn(len(perm))
			perm[j] = kv{perm[j][0], B(string(perm[j][1]) + "x")}
		}
		if variant == 2 {
			perm = append(perm, kv{B(key() + "z"), B(val())})
		}
		var groups [][]kv
		for len(perm) > 0 {
			n := r.Range(1, len(perm))
			groups = append(groups, perm[:n])
			perm = perm[n:]
		}
		// a losing earlier value for a key that is set again later
		if len(groups) > 0 && r.Chance(50) {
			g := groups[len(groups)-1]
			lose := kv{g[r.Intn(len(g))][0], B(val())}
			groups = append([][]kv{{lose}}, groups...)
		}
		// re-apply a group (idempotence)
		if len(groups) > 0 && r.Chance(40) {
			groups = append(groups, groups[len(groups)-1])
		}
		ns := append([]string(nil), names...)
		if variant == 3 {
			ns = append(ns, name()+"q")
		}
		h := 0
		gi, ni := 0, 0
		for gi < len(groups) || ni < len(ns) {
			if ni < len(ns) && (gi >= len(groups) || r.Bool()) {
				c.Ops = append(c.Ops, dOp{Op: "sub", H: h, Name: B(ns[ni])})
				ni++
			} else {
				c.Ops = append(c.Ops, dOp{Op: "tag", H: h, Tags: append([]kv(nil), groups[gi]...)})
				gi++
			}
			nScopes++
			h = nScopes
		}
		if r.Chance(85) {
			c.Ops = append(c.Ops, dOp{Op: "met", H: h, Kind: mkind, Name: B(mname)})
		}
		if r.Chance(25) {
			c.Ops = append(c.Ops, dOp{Op: "met", H: h, Kind: r.Range(1, 4), Name: B(name())})
		}
	}
	// derivations that denote the root's own identity
	if r.Chance(30) {
		var sub []kv
		for _, p := range c.RootTags {
			if r.Bool() {
				sub = append(sub, p)
			}
		}
		c.Ops = append(c.Ops, dOp{Op: "tag", H: 0, Tags: sub})
		nScopes++
		if r.Bool() {
			c.Ops = append(c.Ops, dOp{Op: "met", H: nScopes, Kind: mkind, Name: B(mname)}, dOp{Op: "met", H: 0, Kind: mkind, Name: B(mname)})
		}
	}
	np := r.Range(2, 4)
	for p := 0; p < np; p++ {
		v := 0
		if p > 0 && r.Chance(30) {
			v = r.Range(1, 3)
		}
		program(v)
		// history in between: a random call on a random earlier scope
		if r.Chance(40) {
			h := r.Intn(nScopes + 1)
			switch r.Intn(3) {
			case 0:
				c.Ops = append(c.Ops, dOp{Op: "sub", H: h, Name: B(name())})
				nScopes++
			case 1:
				c.Ops = append(c.Ops, dOp{Op: "tag", H: h, Tags: []kv{{B(key()), B(val())}}})
				nScopes++
			default:
				c.Ops = append(c.Ops, dOp{Op: "met", H: h, Kind: r.Range(1, 4), Name: B(name())})
			}
		}
	}
	return c
}

func c05Bytes(r *Rng, n int, clean func(string) bool) string {
	for {
		b := make([]byte, n)
		for i := range b {
			switch r.Intn(4) {
			case 0:
				b[i] = byte(r.Intn(256))
			case 1:
				b[i] = "ab\x00\x7f\x80\xff*-."[r.Intn(9)]
			default:
				b[i] = byte('a' + r.Intn(4))
			}
		}
		if clean(string(b)) {
			return string(b)
		}
	}
}

func c05GenKeyIn(r *Rng) keyIn {
	k := keyIn{}
	switch r.Intn(4) {
	case 0:
	case 1:
		k.Prefix = B(r.Pick(c05Prefixes))
	default:
		k.Prefix = B(c05Bytes(r, r.Range(1, 6), func(string) bool { return true }))
	}
	n := r.Intn(6)
	if r.Chance(4) {
		n = r.Range(30, 45) // beyond the stack-allocated capacity of 32 keys
	}
	seen := map[string]bool{}
	for j := 0; j < n; j++ {
		var key string
		if r.Bool() {
			key = r.Pick(c05Keys)
		} else {
			key = c05Bytes(r, r.Range(1, 3), kclean)
		}
		if seen[key] {
			continue
		}
		seen[key] = true
		var val string
		if r.Bool() {
			val = r.Pick(c05Vals)
		} else {
			val = c05Bytes(r, r.Intn(4), vclean)
		}
		k.Map = append(k.Map, kv{B(key), B(val)})
	}
	return k
}

func c05GenKey(r *Rng) dCase {
	c := dCase{Mode: "key", Stream: "main"}
	a := c05GenKeyIn(r)
	c.Keys = []keyIn{a}
	switch r.Intn(4) {
	case 0: // the same identity, filled in another order
		b := keyIn{Prefix: a.Prefix, Map: append([]kv(nil), a.Map...)}
		for j := len(b.Map) - 1; j > 0; j-- {
			k := r.Intn(j + 1)
			b.Map[j], b.Map[k] = b.Map[k], b.Map[j]
		}
		c.Keys = append(c.Keys, b)
	case 1: // a neighbouring identity: move bytes between prefix, key and value
		b := keyIn{Prefix: a.Prefix, Map: append([]kv(nil), a.Map...)}
		if len(b.Map) > 0 {
			j := r.Intn(len(b.Map))
			k, v := string(b.Map[j][0]), string(b.Map[j][1])
			switch r.Intn(4) {
			case 0:
				if len(v) > 0 && kclean(v[:1]) {
					k, v = k+v[:1], v[1:]
				} else {
					v += "a"
				}
			case 1:
				if len(k) > 1 && vclean(k[len(k)-1:]) {
					k, v = k[:len(k)-1], k[len(k)-1:]+v
				} else {
					k += "a"
				}
			case 2:
				b.Prefix = B(string(b.Prefix) + k)
			default:
				v = ""
			}
			dup := false
			for i, p := range b.Map {
				dup = dup || (i != j && string(p[0]) == k)
			}
			if !dup {
				b.Map[j] = kv{B(k), B(v)}
			}
		} else {
			b.Prefix = B(string(b.Prefix) + "a")
		}
		c.Keys = append(c.Keys, b)
	case 2:
		c.Keys = append(c.Keys, c05GenKeyIn(r))
	}
	return c
}

// ---- witnesses ----

func kvs(s ...string) []kv {
	var o []kv
	for i := 0; i+1 < len(s); i += 2 {
		o = append(o, kv{B(s[i]), B(s[i+1])})
	}
	return o
}

func c05EmptyKeyWitnesses(r *Rng, n int) []dCase {
	var cs []dCase
	// the exact witnesses
	for _, sh := range []int{1, 2, 16, 64} {
		for _, rep := range []string{"plain", "cached", "test"} {
			cs = append(cs, dCase{Mode: "deriv", Stream: "empty-key", Shards: sh, Rep: rep, Ops: []dOp{
				{Op: "tag", H: 0, Tags: kvs("", "x")}, {Op: "tag", H: 1, Tags: kvs("", "y")}, {Op: "met", H: 2, Kind: 1, Name: "m"},
				{Op: "tag", H: 0, Tags: kvs("", "y")}, {Op: "met", H: 3, Kind: 1, Name: "m"}}})
		}
	}
	cs = append(cs,
		dCase{Mode: "key", Stream: "empty-key", Keys: []keyIn{{Prefix: "p", Map: kvs("", "x", "a", "b")}}},
		dCase{Mode: "key", Stream: "empty-key", Keys: []keyIn{{Map: kvs("", "", "ab", "")}, {Map: kvs("", "a", "b", "")}}},
		dCase{Mode: "key", Stream: "empty-key", Keys: []keyIn{{Map: kvs("", "x")}}},
		dCase{Mode: "deriv", Stream: "empty-key", Shards: 1, Rep: "plain", Ops: []dOp{
			{Op: "tag", H: 0, Tags: kvs("", "", "ab", "")}, {Op: "tag", H: 0, Tags: kvs("", "a", "b", "")},
			{Op: "met", H: 1, Kind: 1, Name: "m"}, {Op: "met", H: 2, Kind: 1, Name: "m"}}},
	)
	// a small universe with the empty key allowed
	ks := []string{"", "a", "ab", "b"}
	vs := []string{"", "a", "x"}
	for i := 0; i < n; i++ {
		mk := func() keyIn {
			k := keyIn{Prefix: B([]string{"", "p"}[r.Intn(2)])}
			seen := map[string]bool{}
			for j := r.Range(1, 3); j > 0; j-- {
				key := ks[r.Intn(len(ks))]
				if j == 1 && !seen[""] && r.Bool() {
					key = ""
				}
				if !seen[key] {
					seen[key] = true
					k.Map = append(k.Map, kv{B(key), B(vs[r.Intn(len(vs))])})
				}
			}
			return k
		}
		if i%3 < 2 {
			cs = append(cs, dCase{Mode: "key", Stream: "empty-key", Keys: []keyIn{mk(), mk()}})
		} else {
			a, b := mk(), mk()
			cs = append(cs, dCase{Mode: "deriv", Stream: "empty-key", Shards: pickShards(r), Rep: []string{"plain", "cached", "test"}[r.Intn(3)],
				Prefix: a.Prefix, Ops: []dOp{{Op: "tag", H: 0, Tags: a.Map}, {Op: "tag", H: 1, Tags: b.Map}, {Op: "met", H: 2, Kind: r.Range(1, 4), Name: "m"},
					{Op: "tag", H: 0, Tags: b.Map}, {Op: "tag", H: 3, Tags: a.Map}, {Op: "met", H: 4, Kind: 1, Name: "m"}}})
		}
	}
	return cs
}

func c05DelimWitnesses(r *Rng, n int) []dCase {
	var cs []dCase
	for _, sh := range []int{1, 2, 16, 64} {
		cs = append(cs,
			dCase{Mode: "deriv", Stream: "delims", Shards: sh, Rep: "plain", Ops: []dOp{
				{Op: "tag", H: 0, Tags: kvs("a", "1,b=2")}, {Op: "tag", H: 0, Tags: kvs("a", "1", "b", "2")},
				{Op: "met", H: 1, Kind: 1, Name: "m"}, {Op: "met", H: 2, Kind: 1, Name: "m"}}},
			dCase{Mode: "deriv", Stream: "delims", Shards: sh, Rep: "cached", Ops: []dOp{
				{Op: "sub", H: 0, Name: "a+b=c"}, {Op: "sub", H: 0, Name: "a"}, {Op: "tag", H: 2, Tags: kvs("b", "c+")},
				{Op: "met", H: 1, Kind: 2, Name: "m"}, {Op: "met", H: 3, Kind: 2, Name: "m"}}})
	}
	cs = append(cs,
		dCase{Mode: "key", Stream: "delims", Keys: []keyIn{{Prefix: "p", Map: kvs("a", "1,b=2")}, {Prefix: "p", Map: kvs("a", "1", "b", "2")}}},
		dCase{Mode: "key", Stream: "delims", Keys: []keyIn{{Prefix: "a+b=c"}, {Prefix: "a", Map: kvs("b", "c+")}}},
		dCase{Mode: "key", Stream: "delims", Keys: []keyIn{{Map: kvs("a=b", "c")}, {Map: kvs("a", "b=c")}}},
	)
	// random inputs with delimiters inside keys and values
	dk := []string{"a", "b", "a=b", "a,b", "b+", "c"}
	dv := []string{"1", "2", "1,b=2", "c+", "b=c", ",", "+"}
	for i := 0; i < n; i++ {
		mk := func() keyIn {
			k := keyIn{Prefix: B([]string{"", "p", "a", "a+b=c"}[r.Intn(4)])}
			seen := map[string]bool{}
			for j := r.Range(0, 3); j > 0; j-- {
				key := dk[r.Intn(len(dk))]
				if !seen[key] {
					seen[key] = true
					k.Map = append(k.Map, kv{B(key), B(dv[r.Intn(len(dv))])})
				}
			}
			return k
		}
		cs = append(cs, dCase{Mode: "key", Stream: "delims", Keys: []keyIn{mk(), mk()}})
	}
	return cs
}

// ---- concurrent first use ----
//
// "asking a scope twice for a metric of the same kind and name returns the same metric": the
// two requests may come from two goroutines at once. The programs and the schedule controller
// are those of C09 (c09Exec: goroutines over {obtain (kind, name), record, report pass} on one
// live scope, scheduled over the yield points 51..54 between the probe and the locked re-check
// of the four getters); the predicate here is C05's own, on pointer identities only: requests
// with equal (kind, name) got one object, requests that differ in kind or name got different ones.

type c05FirstUseCase struct {
	Mode string  `json:"mode"` // first-use
	Case c09Case `json:"first_use"`
}

func c05FirstUsePredicate(gets []int64) string {
	type kn struct{ kind, name int64 }
	objOf := map[kn]int64{}
	idOf := map[int64]kn{}
	for i := 0; i+2 < len(gets); i += 3 {
		k, obj := kn{gets[i], gets[i+1]}, gets[i+2]
		if prev, ok := objOf[k]; ok && prev != obj {
			return fmt.Sprintf("one scope was asked more than once for the %s named n%d and returned different metrics (objects %d and %d)",
				[]string{"counter", "gauge", "timer", "histogram"}[k.kind], k.name, prev, obj)
		}
		objOf[k] = obj
		if prev, ok := idOf[obj]; ok && prev != k {
			return fmt.Sprintf("requests for (kind %d, n%d) and (kind %d, n%d) returned one metric (object %d)", prev.kind, prev.name, k.kind, k.name, obj)
		}
		idOf[obj] = k
	}
	return ""
}

func c05FirstUseOne(ctx *Ctx, c *c09Case) {
	if c09Deadlocks >= 3 {
		return
	}
	out := c09Exec(c)
	cc := c05FirstUseCase{Mode: "first-use", Case: *c}
	cc.Case.Sched = out.Sched
	raced := ""
	at := map[int]int64{}
	for k, i := range out.Sched {
		if k < len(out.Labels) {
			at[i] = out.Labels[k]
		}
		n := 0
		for _, l := range at {
			if l >= 51 && l <= 54 {
				n++
			}
		}
		if n >= 2 {
			raced = hashOf(cc)
		}
	}
	ctx.Case(cc, "", fmt.Sprintf("first-use-under-schedule/threads=%d/cached=%v", len(c.Progs)-1, c.Cached), raced)
	if f := c05FirstUsePredicate(out.Gets); f != "" {
		ctx.Fail("same_scope_same_kind_and_name_same_metric", f+fmt.Sprintf(" (goroutines %v, executed schedule %v)", c.Progs, out.Sched), cc, out)
	}
}

// c05FirstUseStream: all interleavings of two goroutines that each obtain the same fresh
// (kind, name) and record once, for the four kinds and both reporter flavours (three
// goroutines in the thorough tier), then random programs.
func c05FirstUseStream(ctx *Ctx, nrandom int) {
	for kind := 0; kind < 4; kind++ {
		for _, cached := range []bool{false, true} {
			nth := 2
			if ctx.Thorough() {
				nth = 3
			}
			base := c09Case{Cached: cached}
			for t := 0; t < nth; t++ {
				base.Progs = append(base.Progs, []c09Op{{Op: "get", Kind: kind}, {Op: "rec"}})
			}
			base.Progs = append(base.Progs, []c09Op{{Op: "pass"}})
			var rec func(prefix []int, left []int)
			rec = func(prefix []int, left []int) {
				done := true
				for t := range left {
					if left[t] > 0 {
						done = false
						l2 := append([]int(nil), left...)
						l2[t]--
						rec(append(append([]int(nil), prefix...), t), l2)
					}
				}
				if done {
					c := base
					c.Sched = prefix
					c05FirstUseOne(ctx, &c)
				}
			}
			left := make([]int, nth)
			for t := range left {
				left[t] = 3
			}
			rec(nil, left)
		}
	}
	for k := 0; k < nrandom; k++ {
		c := c09Gen(ctx.R)
		c05FirstUseOne(ctx, &c)
	}
}

func init() {
	props["C05"] = func(ctx *Ctx) {
		ctx.Header("DerivCorr")
		ctx.Res.Rule = "case = either (root options, shard count, reporter flavour, sanitizer, a history of SubScope/Tagged/metric calls built from programs that permute, regroup, override and re-apply the same tag assignments) or (prefix, map) inputs of the public key functions; generated from the seed; non-trivial = at least two calls (two bindings for key cases); distinct by hash of the case"
		one := func(c *dCase) { derivOne(ctx, c, "C05") }
		if ctx.Replay != nil {
			var rp struct {
				Progs []json.RawMessage `json:"progs"`
			}
			if json.Unmarshal(ctx.Replay, &rp) == nil && len(rp.Progs) > 0 {
				regReplay(ctx, "equal_identities_share_one_scope_distinct_never_merge")
				return
			}
			var sc c05StormCase
			if json.Unmarshal(ctx.Replay, &sc) == nil && sc.IdentityStorm {
				ctx.Case(sc, "", "uncontrolled-identity-storm-rounds", "")
				for k := 0; k < 5 && len(ctx.Res.Failures) == 0; k++ {
					c05IdentityStorm(ctx, sc.First, sc.Rounds, sc.Iters)
				}
				return
			}
			var fu c05FirstUseCase
			if json.Unmarshal(ctx.Replay, &fu) == nil && fu.Mode == "first-use" {
				for k := 0; k < 3 && len(ctx.Res.Failures) == 0; k++ {
					c05FirstUseOne(ctx, &fu.Case)
				}
				return
			}
			var c dCase
			if err := json.Unmarshal(ctx.Replay, &c); err != nil {
				fatal(err)
			}
			one(&c)
			return
		}
		for _, raw := range ctx.CorpusCases() {
			var fu c05FirstUseCase
			if json.Unmarshal(raw, &fu) == nil && fu.Mode == "first-use" {
				c05FirstUseOne(ctx, &fu.Case)
				continue
			}
			var c dCase
			if json.Unmarshal(raw, &c) == nil && c.Mode != "" {
				one(&c)
			}
		}
		for _, c := range c05EmptyKeyWitnesses(ctx.R, ctx.N(40, 600)) {
			c := c
			one(&c)
		}
		for _, c := range c05DelimWitnesses(ctx.R, ctx.N(30, 400)) {
			c := c
			one(&c)
		}
		n := ctx.N(350, 18000)
		for i := 0; i < n; i++ {
			c := c05GenDeriv(ctx.R, i)
			one(&c)
		}
		n = ctx.N(300, 18000)
		for i := 0; i < n; i++ {
			c := c05GenKey(ctx.R)
			one(&c)
		}
		// derivations and key inputs that differ only just (invalid UTF-8 bytes, spellings the
		// sanitizer shortens followed by fixed spellings next to their sanitized form, names that
		// repeat the prefix); own generator: the other streams keep their cases
		tr := NewRng(ctx.Seed*0x9E3779B97F4A7C15 + 0x7715)
		n = ctx.N(150, 6000)
		for i := 0; i < n; i++ {
			c := derivTwinsCase(tr, i)
			one(&c)
		}
		n = ctx.N(40, 1000)
		for i := 0; i < n; i++ {
			c := derivTwinKeys(tr)
			one(&c)
		}
		// a backslash where the other identity has a delimiter: two identities, two keys, two scopes
		n = ctx.N(120, 3000)
		for i := 0; i < n; i++ {
			c := derivNearDelims(tr, i)
			one(&c)
		}
		// identities keep their own scope also through obtain / Close / obtain-again cycles racing
		// report passes and each other (schedule-controlled registry scenarios, direct predicate)
		regCrossStream(ctx, ctx.N(150, 3000), "equal_identities_share_one_scope_distinct_never_merge")
		// the same metric also when the two requests come from two goroutines at once
		c05FirstUseStream(ctx, ctx.N(120, 3000))
		// different identities derived from one parent by several goroutines at once (uncontrolled)
		c05IdentityStorm(ctx, int(ctx.Seed%7)*3, ctx.N(120, 1200), ctx.N(400, 1000))
		ctx.Note("streams: main (delimiter-free, non-empty keys, sanitizer-fixed inputs), empty-key (F05a witnesses; cases on which the tree deviates from the canonical key are reported as the finding and withheld from the model, which describes the repaired writer), delims (F05b witnesses; the model reproduces the merge)")
		_ = fmt.Sprint
	}
}
