package main

// Shared driver of C04 and C05: derivation programs (SubScope / Tagged /
// metric getters) on a real root scope, and the public key functions.
// The Coq side is coq/Corr/DerivCorr.v (model: Model/KeyGen.v, Model/Deriv.v).

import (
	"bytes"
	"fmt"
	"io"
	"sort"
	"strings"
	"time"

	tally "github.com/uber-go/tally/v4"
)

type kv [2]B

type dOp struct {
	Op   string `json:"op"` // sub | tag | met
	H    int    `json:"h"`  // scope handle: 0 = root, i = result of the i-th scope op
	Name B      `json:"name,omitempty"`
	Tags []kv   `json:"tags,omitempty"`
	Kind int    `json:"kind,omitempty"` // 1 counter, 2 gauge, 3 timer, 4 histogram
	// tag: the caller hands Tagged the very map object of the previous Tagged call, refilled
	Reuse bool `json:"reuse,omitempty"`
}

type keyIn struct {
	Prefix B    `json:"prefix"`
	Map    []kv `json:"map"`
}

type dCase struct {
	Mode     string  `json:"mode"`   // deriv | key
	Stream   string  `json:"stream"` // main | empty-key | delims | collide
	Shards   int     `json:"shards,omitempty"`
	Rep      string  `json:"rep,omitempty"` // plain | cached | test
	San      int     `json:"san,omitempty"` // index into sanConfigs (0 = no sanitizer)
	Prefix   B       `json:"prefix,omitempty"`
	Sep      B       `json:"sep,omitempty"`
	RootTags []kv    `json:"root_tags,omitempty"`
	Ops      []dOp   `json:"ops,omitempty"`
	Keys     []keyIn `json:"keys,omitempty"`
}

func vc(r []tally.SanitizeRange, c []rune) tally.ValidCharacters {
	return tally.ValidCharacters{Ranges: r, Characters: c}
}

var sanConfigs = []*tally.SanitizeOptions{
	nil,
	{ // the m3 reporter's
		NameCharacters:       vc(tally.AlphanumericRange, tally.UnderscoreDashDotCharacters),
		KeyCharacters:        vc(tally.AlphanumericRange, tally.UnderscoreDashCharacters),
		ValueCharacters:      vc(tally.AlphanumericRange, tally.UnderscoreDashDotCharacters),
		ReplacementCharacter: tally.DefaultReplacementCharacter,
	},
	{ // the prometheus reporter's
		NameCharacters:       vc(tally.AlphanumericRange, tally.UnderscoreCharacters),
		KeyCharacters:        vc(tally.AlphanumericRange, tally.UnderscoreCharacters),
		ValueCharacters:      vc(tally.AlphanumericRange, tally.UnderscoreCharacters),
		ReplacementCharacter: tally.DefaultReplacementCharacter,
	},
	{ // names keep ':' and '+', values keep '=', replacement is a letter
		NameCharacters:       vc(tally.AlphanumericRange, []rune{'.', ':', '+', '_'}),
		KeyCharacters:        vc(tally.AlphanumericRange, []rune{'_', '.'}),
		ValueCharacters:      vc(tally.AlphanumericRange, []rune{'_', '.', '=', ' '}),
		ReplacementCharacter: 'x',
	},
	{ // everything above ASCII is valid, multi-byte replacement
		NameCharacters:       vc(append([]tally.SanitizeRange{{0x80, 0x10FFFF}}, tally.AlphanumericRange...), nil),
		KeyCharacters:        vc(append([]tally.SanitizeRange{{0x80, 0x10FFFF}}, tally.AlphanumericRange...), nil),
		ValueCharacters:      vc(append([]tally.SanitizeRange{{0x80, 0x10FFFF}}, tally.AlphanumericRange...), nil),
		ReplacementCharacter: 'é',
	},
}

func sanitizerOf(i int) tally.Sanitizer {
	if i <= 0 || i >= len(sanConfigs) || sanConfigs[i] == nil {
		return tally.NewNoOpSanitizer()
	}
	return tally.NewSanitizer(*sanConfigs[i])
}

// keys must be free of '+', ',', '=' and values of '+', ',' (the hypotheses of
// C05_key_injective)
func kclean(s string) bool { return !strings.ContainsAny(s, "+,=") }
func vclean(s string) bool { return !strings.ContainsAny(s, "+,") }

func pairsMap(ps []kv) map[string]string {
	if len(ps) == 0 {
		return nil
	}
	m := make(map[string]string, len(ps))
	for _, p := range ps {
		m[string(p[0])] = string(p[1])
	}
	return m
}

func copyMap(m map[string]string) map[string]string {
	if m == nil {
		return nil
	}
	o := make(map[string]string, len(m))
	for k, v := range m {
		o[k] = v
	}
	return o
}

func mapsEqual(a, b map[string]string) bool {
	if len(a) != len(b) {
		return false
	}
	for k, v := range a {
		if w, ok := b[k]; !ok || w != v {
			return false
		}
	}
	return true
}

func flatPairs(ps []kv) []string {
	out := make([]string, 0, 2*len(ps))
	for _, p := range ps {
		out = append(out, string(p[0]), string(p[1]))
	}
	return out
}

// sortedFlat flattens a map sorted by key (bytewise, as Go's string order).
func sortedFlat(m map[string]string) []string {
	ks := make([]string, 0, len(m))
	for k := range m {
		ks = append(ks, k)
	}
	sort.Strings(ks)
	out := make([]string, 0, 2*len(ks))
	for _, k := range ks {
		out = append(out, k, m[k])
	}
	return out
}

// refKey is the canonical form the anchors describe: prefix '+' then the
// bindings sorted by key, each once, as k=v joined by ','.
func refKey(prefix string, m map[string]string) string {
	var b bytes.Buffer
	if prefix != "" {
		b.WriteString(prefix)
		b.WriteByte('+')
	}
	f := sortedFlat(m)
	for i := 0; i < len(f); i += 2 {
		if i > 0 {
			b.WriteByte(',')
		}
		b.WriteString(f[i])
		b.WriteByte('=')
		b.WriteString(f[i+1])
	}
	return b.String()
}

type delivery struct {
	Name string            `json:"name"`
	Tags map[string]string `json:"tags"`
	ok   bool
}

type dFail struct{ pred, what string }

type ident struct {
	prefix string
	tags   map[string]string
	// for maps whose sanitized keys collide: the candidate values per key
	cands map[string]map[string]bool
}

type derivOut struct {
	in, obs  []Ev
	scopeCls []int
	metCls   []int
	metScope []int
	metKind  []int
	metName  []string // sanitized metric name
	deliv    []delivery
	idents   []ident
	sep      string
	fails    []dFail
	regKeys  []string
	fixed    bool // the sanitizer leaves every tag key and value of the Tagged calls unchanged
	fixedH   []bool // per scope handle: the same for the Tagged calls of its own derivation chain
	collide  bool
	panicked string
}

func qualName(sep, p, n string) string {
	if p == "" {
		return n
	}
	return p + sep + n
}

func deliveryOf(e Ev) delivery {
	d := delivery{Tags: map[string]string{}, ok: true}
	if len(e.S) > 0 {
		d.Name = e.S[0]
	}
	for i := 1; i+1 < len(e.S); i += 2 {
		d.Tags[e.S[i]] = e.S[i+1]
	}
	return d
}

func sameDelivery(a, b delivery) bool { return a.Name == b.Name && mapsEqual(a.Tags, b.Tags) }

// snapEntries flattens a test-scope snapshot into comparable entries.
type snapEnt struct {
	val string
	d   delivery
}

func snapEntries(s tally.Snapshot, kind int) map[string]snapEnt {
	out := map[string]snapEnt{}
	switch kind {
	case 1:
		for id, c := range s.Counters() {
			out[id] = snapEnt{fmt.Sprint(c.Value()), delivery{Name: c.Name(), Tags: c.Tags(), ok: true}}
		}
	case 2:
		for id, c := range s.Gauges() {
			out[id] = snapEnt{fmt.Sprint(c.Value()), delivery{Name: c.Name(), Tags: c.Tags(), ok: true}}
		}
	case 3:
		for id, c := range s.Timers() {
			out[id] = snapEnt{fmt.Sprint(len(c.Values())), delivery{Name: c.Name(), Tags: c.Tags(), ok: true}}
		}
	case 4:
		for id, c := range s.Histograms() {
			var n int64
			for _, v := range c.Values() {
				n += v
			}
			out[id] = snapEnt{fmt.Sprint(n), delivery{Name: c.Name(), Tags: c.Tags(), ok: true}}
		}
	}
	return out
}

// derivRun drives the real implementation through one derivation case.
func derivRun(c *dCase) (o *derivOut) {
	o = &derivOut{fixed: true}
	defer func() {
		if p := recover(); p != nil {
			o.panicked = fmt.Sprint(p)
		}
	}()
	san := sanitizerOf(c.San)
	var opts *tally.SanitizeOptions
	if c.San > 0 && c.San < len(sanConfigs) {
		opts = sanConfigs[c.San]
	}
	fail := func(pred, f string, a ...interface{}) { o.fails = append(o.fails, dFail{pred, fmt.Sprintf(f, a...)}) }

	// what the real sanitizer returns for every string of the case
	nameT, keyT, valT := map[string]string{}, map[string]string{}, map[string]string{}
	addName := func(s string) { nameT[s] = san.Name(s) }
	addTags := func(ps []kv) {
		for _, p := range ps {
			keyT[string(p[0])] = san.Key(string(p[0]))
			valT[string(p[1])] = san.Value(string(p[1]))
		}
	}
	sepRaw := string(c.Sep)
	if c.Rep == "test" {
		sepRaw = ""
	}
	sepEff := sepRaw
	if sepEff == "" {
		sepEff = tally.DefaultSeparator
	}
	addName(string(c.Prefix))
	addName(sepEff)
	addTags(c.RootTags)
	for _, op := range c.Ops {
		switch op.Op {
		case "sub", "met":
			addName(string(op.Name))
		case "tag":
			addTags(op.Tags)
			for _, p := range op.Tags {
				if san.Key(string(p[0])) != string(p[0]) || san.Value(string(p[1])) != string(p[1]) {
					o.fixed = false
				}
			}
		}
	}
	table := func(k int, t map[string]string) Ev {
		var s []string
		ks := make([]string, 0, len(t))
		for x := range t {
			ks = append(ks, x)
		}
		sort.Strings(ks)
		for _, x := range ks {
			if t[x] != x {
				s = append(s, x, t[x])
			}
		}
		return Ev{K: k, S: s}
	}
	o.in = append(o.in, table(60, nameT), table(61, keyT), table(62, valT))
	o.in = append(o.in, Ev{K: 50, S: []string{string(c.Prefix), sepRaw}}, Ev{K: 51, S: flatPairs(c.RootTags)})

	// Go-side specification of the identities (direct predicates)
	sanMap := func(ps []kv) (map[string]string, map[string]map[string]bool) {
		m := map[string]string{}
		cands := map[string]map[string]bool{}
		for _, p := range ps {
			k, v := san.Key(string(p[0])), san.Value(string(p[1]))
			m[k] = v
			if cands[k] == nil {
				cands[k] = map[string]bool{}
			}
			cands[k][v] = true
		}
		for k, cs := range cands {
			if len(cs) > 1 {
				o.collide = true
			} else {
				delete(cands, k)
			}
		}
		return m, cands
	}
	o.sep = san.Name(sepEff)
	rt, rc := sanMap(c.RootTags)
	o.idents = []ident{{prefix: san.Name(string(c.Prefix)), tags: rt, cands: rc}}
	o.fixedH = []bool{true}

	// the root
	log := &Log{}
	rootTags := pairsMap(c.RootTags)
	rootTagsBefore := copyMap(rootTags)
	var root tally.Scope
	var cached *RecCached
	switch c.Rep {
	case "test":
		root = tally.VerifNewTestScope(string(c.Prefix), rootTags, uint(c.Shards))
	case "cached":
		cached = &RecCached{L: log, Caps: caps{true, true}}
		root, _ = tally.VerifNewRootScope(tally.ScopeOptions{Prefix: string(c.Prefix), Tags: rootTags, Separator: sepRaw,
			CachedReporter: cached, SanitizeOptions: opts, OmitCardinalityMetrics: true}, 0, uint(c.Shards))
	default:
		root, _ = tally.VerifNewRootScope(tally.ScopeOptions{Prefix: string(c.Prefix), Tags: rootTags, Separator: sepRaw,
			Reporter: &RecReporter{L: log, Caps: caps{true, true}}, SanitizeOptions: opts, OmitCardinalityMetrics: true}, 0, uint(c.Shards))
	}
	if !mapsEqual(rootTags, rootTagsBefore) {
		fail("caller_map_not_mutated", "the root constructor changed the caller's tag map from %q to %q", rootTagsBefore, rootTags)
	}
	mutate := func(m map[string]string) {
		first := true
		for k := range m {
			if first {
				delete(m, k)
				first = false
				continue
			}
			m[k] = "MUTATED"
		}
		if m != nil {
			m["zzmut"] = "MUTATED"
		}
	}
	mutate(rootTags)

	scopes := []tally.Scope{root}
	o.scopeCls = []int{0}
	nScopeCls := 1
	var handles []interface{}
	nMetCls := 0
	allocs := map[int64]Ev{}
	bucketOf := map[int64]int64{}
	seen := 0 // log entries already processed (cached mode)

	// observe returns the identities (name, tags) under which the value just recorded through a
	// metric of the given kind arrived: the arguments of the Report* calls of one report pass
	// (plain), those of the Allocate* call of the handle that received the report (cached), or the
	// snapshot entry that changed (test).
	observe := func(kind int, mark int, before map[string]snapEnt) []delivery {
		var ds []delivery
		switch c.Rep {
		case "test":
			after := snapEntries(root.(tally.TestScope).Snapshot(), kind)
			for id, e := range after {
				if b, ok := before[id]; !ok || b.val != e.val || !sameDelivery(b.d, e.d) {
					ds = append(ds, e.d)
				}
			}
		case "cached":
			tally.VerifReportOnce(root)
			evs := log.Snapshot()
			for _, e := range evs[seen:] {
				switch {
				case e.K >= 11 && e.K <= 14:
					allocs[e.I[0]] = e
				case e.K == 24 || e.K == 25:
					bucketOf[e.I[3]] = e.I[0]
				}
			}
			seen = len(evs)
			for _, e := range evs[mark:] {
				switch {
				case e.K >= 21 && e.K <= 23:
					if a, ok := allocs[e.I[0]]; ok && a.K == e.K-10 {
						ds = append(ds, deliveryOf(a))
					} else {
						fail("delivery_through_allocated_handle", "report %v on a handle that was never allocated with that kind", e)
					}
				case e.K == 26:
					if a, ok := allocs[bucketOf[e.I[0]]]; ok && a.K == 14 {
						ds = append(ds, deliveryOf(a))
					}
				}
			}
		default:
			tally.VerifReportOnce(root)
			for _, e := range log.Snapshot()[mark:] {
				if e.K >= 1 && e.K <= 5 && e.K == []int{0, 1, 2, 3, 4}[kind] {
					ds = append(ds, deliveryOf(e))
				} else if e.K >= 1 && e.K <= 5 {
					fail("delivery_kind", "a %d-kind metric was delivered through call kind %d", kind, e.K)
				}
			}
		}
		return ds
	}
	snapsTaken := 0
	var prevSnap [5][]delivery

	closedH := map[int]bool{}
	var lastTagMap map[string]string // the map object of the most recent Tagged call
	for _, op := range c.Ops {
		if op.H < 0 || op.H >= len(scopes) || closedH[op.H] {
			continue
		}
		parent := scopes[op.H]
		pid := o.idents[op.H]
		switch op.Op {
		case "sub", "tag":
			var s tally.Scope
			if op.Op == "sub" {
				o.in = append(o.in, Ev{K: 1, I: []int64{int64(op.H)}, S: []string{string(op.Name)}})
				s = parent.SubScope(string(op.Name))
				o.idents = append(o.idents, ident{prefix: qualName(o.sep, pid.prefix, san.Name(string(op.Name))), tags: pid.tags, cands: pid.cands})
				o.fixedH = append(o.fixedH, o.fixedH[op.H])
			} else {
				o.in = append(o.in, Ev{K: 2, I: []int64{int64(op.H)}, S: flatPairs(op.Tags)})
				m := pairsMap(op.Tags)
				if op.Reuse && lastTagMap != nil {
					// a caller's scratch map: emptied, refilled, handed in again
					for k := range lastTagMap {
						delete(lastTagMap, k)
					}
					for k, v := range m {
						lastTagMap[k] = v
					}
					m = lastTagMap
				}
				if m != nil {
					lastTagMap = m
				}
				before := copyMap(m)
				s = parent.Tagged(m)
				if !mapsEqual(m, before) {
					fail("caller_map_not_mutated", "Tagged changed the caller's map from %q to %q", before, m)
				}
				mutate(m)
				sm, sc := sanMap(op.Tags)
				nt := copyMap(pid.tags)
				if nt == nil {
					nt = map[string]string{}
				}
				nc := map[string]map[string]bool{}
				for k, v := range pid.cands {
					nc[k] = v
				}
				for k, v := range sm {
					nt[k] = v
					delete(nc, k)
				}
				for k, v := range sc {
					nc[k] = v
				}
				o.idents = append(o.idents, ident{prefix: pid.prefix, tags: nt, cands: nc})
				fx := o.fixedH[op.H]
				for _, p := range op.Tags {
					fx = fx && san.Key(string(p[0])) == string(p[0]) && san.Value(string(p[1])) == string(p[1])
				}
				o.fixedH = append(o.fixedH, fx)
			}
			cls := -1
			for i, t := range scopes {
				if t == s {
					cls = o.scopeCls[i]
					break
				}
			}
			if cls < 0 {
				cls = nScopeCls
				nScopeCls++
			}
			scopes = append(scopes, s)
			o.scopeCls = append(o.scopeCls, cls)
			o.obs = append(o.obs, Ev{K: 1, I: []int64{int64(cls)}})
		case "close":
			// Close() of a sub-scope (never the root; the generator closes only scopes no other
			// handle aliases): the next report pass delivers it a last time and drops it; the handle
			// is not used again. Everything else keeps the tags its derivation denotes.
			if scopes[op.H] != root {
				if cl, ok := scopes[op.H].(io.Closer); ok {
					cl.Close()
					closedH[op.H] = true
				}
			}
		case "pass":
			if c.Rep != "test" {
				tally.VerifReportOnce(root)
			}
		case "snap":
			// Snapshot(): every entry's tag map is handed to the caller, who may do with it what he
			// likes ("the tags delivered for one scope never change over its lifetime"): the entries
			// of an earlier snapshot must reappear with the same name and tags, then the harness
			// writes into every map it got
			sn := root.(tally.TestScope).Snapshot()
			var cur [5][]delivery
			var maps []map[string]string
			for _, e := range sn.Counters() {
				cur[1] = append(cur[1], delivery{Name: e.Name(), Tags: copyMap(e.Tags()), ok: true})
				maps = append(maps, e.Tags())
			}
			for _, e := range sn.Gauges() {
				cur[2] = append(cur[2], delivery{Name: e.Name(), Tags: copyMap(e.Tags()), ok: true})
				maps = append(maps, e.Tags())
			}
			for _, e := range sn.Timers() {
				cur[3] = append(cur[3], delivery{Name: e.Name(), Tags: copyMap(e.Tags()), ok: true})
				maps = append(maps, e.Tags())
			}
			for _, e := range sn.Histograms() {
				cur[4] = append(cur[4], delivery{Name: e.Name(), Tags: copyMap(e.Tags()), ok: true})
				maps = append(maps, e.Tags())
			}
			for k := 1; k <= 4; k++ {
				for _, was := range prevSnap[k] {
					found := false
					for _, is := range cur[k] {
						found = found || sameDelivery(was, is)
					}
					if !found {
						fail("tags_never_change_over_lifetime", "snapshot %d no longer shows the kind-%d entry %q with tags %q of the snapshot before it, whose tag maps the caller had modified; it shows %v", snapsTaken, k, was.Name, was.Tags, cur[k])
					}
				}
			}
			prevSnap = cur
			snapsTaken++
			for _, m := range maps {
				ks := make([]string, 0, len(m))
				for k := range m {
					ks = append(ks, k)
				}
				sort.Strings(ks)
				for i, k := range ks {
					if i == 0 && op.Kind != 2 {
						delete(m, k)
					} else {
						m[k] = "SNAPMUT"
					}
				}
				if m != nil && op.Kind != 1 {
					m["zzsnap"] = "SNAPMUT"
				}
			}
		case "met":
			o.in = append(o.in, Ev{K: 3, I: []int64{int64(op.H), int64(op.Kind)}, S: []string{string(op.Name)}})
			mark := log.Len()
			var before map[string]snapEnt
			if c.Rep == "test" {
				before = snapEntries(root.(tally.TestScope).Snapshot(), op.Kind)
			}
			var h interface{}
			switch op.Kind {
			case 1:
				x := parent.Counter(string(op.Name))
				x.Inc(1)
				h = x
			case 2:
				x := parent.Gauge(string(op.Name))
				x.Update(float64(len(handles)) + 1.5)
				h = x
			case 3:
				x := parent.Timer(string(op.Name))
				x.Record(time.Duration(len(handles)+1) * time.Millisecond)
				h = x
			default:
				x := parent.Histogram(string(op.Name), tally.ValueBuckets{1, 2})
				x.RecordValue(0.5)
				h = x
			}
			var d delivery
			ds := observe(op.Kind, mark, before)
			if len(ds) == 0 {
				fail("metric_is_delivered", "op %v: nothing was delivered for the recorded value", op)
			} else {
				d = ds[0]
				for _, x := range ds[1:] {
					if !sameDelivery(d, x) {
						fail("one_delivery_identity", "op %v: delivered under %v and under %v", op, d, x)
					}
				}
			}
			cls := -1
			for i, t := range handles {
				if t == h {
					cls = o.metCls[i]
					break
				}
			}
			if cls < 0 {
				cls = nMetCls
				nMetCls++
			}
			handles = append(handles, h)
			o.metCls = append(o.metCls, cls)
			o.metScope = append(o.metScope, op.H)
			o.metKind = append(o.metKind, op.Kind)
			o.metName = append(o.metName, san.Name(string(op.Name)))
			o.deliv = append(o.deliv, d)
			o.obs = append(o.obs, Ev{K: 3, I: []int64{int64(cls)}, S: append([]string{d.Name}, sortedFlat(d.Tags)...)})
		}
	}
	// after a caller wrote into snapshot maps: every metric, used again, must arrive under the
	// name and tags it arrived under the first time
	if snapsTaken > 0 {
		done := map[int]bool{}
		for i, h := range handles {
			if done[o.metCls[i]] || !o.deliv[i].ok {
				continue
			}
			done[o.metCls[i]] = true
			mark := log.Len()
			var before map[string]snapEnt
			if c.Rep == "test" {
				before = snapEntries(root.(tally.TestScope).Snapshot(), o.metKind[i])
			}
			switch x := h.(type) {
			case tally.Counter:
				x.Inc(3)
			case tally.Gauge:
				x.Update(float64(len(handles)+i) + 7.25)
			case tally.Timer:
				x.Record(time.Duration(len(handles)+i+1) * time.Second)
			case tally.Histogram:
				x.RecordValue(0.5)
			}
			ds := observe(o.metKind[i], mark, before)
			if len(ds) == 0 {
				fail("tags_never_change_over_lifetime", "metric step %d: used again after the caller modified the tag maps of a snapshot, nothing arrived under its first identity %v", i, o.deliv[i])
			}
			for _, d := range ds {
				if !sameDelivery(d, o.deliv[i]) {
					fail("tags_never_change_over_lifetime", "metric step %d (scope handle %d): first delivered as %q with tags %q; used again after the caller modified the tag maps obtained from Snapshot() it is delivered as %q with tags %q", i, o.metScope[i], o.deliv[i].Name, o.deliv[i].Tags, d.Name, d.Tags)
					break
				}
			}
		}
	}
	keys := map[string]bool{}
	shardOf := map[string]int{}
	for _, e := range tally.VerifRegistryDump(root) {
		keys[e.Key] = true
		if sh, ok := shardOf[e.Key]; ok && sh != e.Shard && !e.Root && o.fixed {
			fail("key_in_one_shard", "registry key %q is held by shards %d and %d", e.Key, sh, e.Shard)
		}
		shardOf[e.Key] = e.Shard
	}
	for k := range keys {
		o.regKeys = append(o.regKeys, k)
	}
	sort.Strings(o.regKeys)
	return o
}

func identEq(a, b ident) bool { return a.prefix == b.prefix && mapsEqual(a.tags, b.tags) }

// derivC04 evaluates the C04 predicates: every metric is delivered under the
// name and the tags its derivation denotes.
func derivC04(c *dCase, o *derivOut) []dFail {
	var fs []dFail
	for i, d := range o.deliv {
		if !d.ok {
			continue
		}
		id := o.idents[o.metScope[i]]
		want := qualName(o.sep, id.prefix, o.metName[i])
		if d.Name != want {
			fs = append(fs, dFail{"name_follows_derivation", fmt.Sprintf("metric step %d (scope handle %d): delivered under name %q, the derivation denotes %q", i, o.metScope[i], d.Name, want)})
		}
		okTags := len(d.Tags) == len(id.tags)
		for k, v := range id.tags {
			w, ok := d.Tags[k]
			if !ok {
				okTags = false
			} else if cs := id.cands[k]; cs != nil {
				if !cs[w] {
					okTags = false
				}
			} else if w != v {
				okTags = false
			}
		}
		if !okTags {
			pred := "tags_follow_derivation"
			for k, v := range d.Tags {
				if k == "zzmut" || v == "MUTATED" {
					pred = "caller_map_not_retained"
				}
				if k == "zzsnap" || v == "SNAPMUT" {
					pred = "tags_never_change_over_lifetime"
				}
			}
			fs = append(fs, dFail{pred, fmt.Sprintf("metric step %d (scope handle %d): delivered with tags %q, the derivation denotes %q", i, o.metScope[i], d.Tags, id.tags)})
		}
	}
	return fs
}

// derivC05 evaluates the C05 predicates on pointer identities: equal
// identities share one scope / metric (for derivations through inputs the
// sanitizer leaves unchanged, or with one shard), different identities never
// do (whatever else was derived before, rewritten spellings included).
func derivC05(c *dCase, o *derivOut) []dFail {
	var fs []dFail
	for j := range o.scopeCls {
		for i := 0; i < j; i++ {
			same := identEq(o.idents[i], o.idents[j])
			if c.Stream == "near-delims" && !same && refKey(o.idents[i].prefix, o.idents[i].tags) == refKey(o.idents[j].prefix, o.idents[j].tags) {
				continue // a collision of the documented format itself: F05b, reported by its own witnesses
			}
			if same && o.scopeCls[i] != o.scopeCls[j] && ((o.fixedH[i] && o.fixedH[j]) || c.Shards == 1) {
				fs = append(fs, dFail{"same_identity_same_scope", fmt.Sprintf("scope handles %d and %d both denote (%q, %q) but are different scopes", i, j, o.idents[i].prefix, o.idents[i].tags)})
			}
			if !same && o.scopeCls[i] == o.scopeCls[j] {
				fs = append(fs, dFail{"distinct_never_merge", fmt.Sprintf("scope handles %d = (%q, %q) and %d = (%q, %q) are the same scope", i, o.idents[i].prefix, o.idents[i].tags, j, o.idents[j].prefix, o.idents[j].tags)})
			}
		}
	}
	for j := range o.metCls {
		for i := 0; i < j; i++ {
			same := identEq(o.idents[o.metScope[i]], o.idents[o.metScope[j]]) && o.metKind[i] == o.metKind[j] && o.metName[i] == o.metName[j]
			if c.Stream == "near-delims" && !identEq(o.idents[o.metScope[i]], o.idents[o.metScope[j]]) &&
				refKey(o.idents[o.metScope[i]].prefix, o.idents[o.metScope[i]].tags) == refKey(o.idents[o.metScope[j]].prefix, o.idents[o.metScope[j]].tags) {
				continue
			}
			if same && o.metCls[i] != o.metCls[j] && ((o.fixedH[o.metScope[i]] && o.fixedH[o.metScope[j]]) || c.Shards == 1) {
				fs = append(fs, dFail{"same_identity_same_metric", fmt.Sprintf("metric steps %d and %d ask the same scope identity for the same kind and name %q but got different metrics", i, j, o.metName[i])})
			}
			if !same && o.metCls[i] == o.metCls[j] {
				fs = append(fs, dFail{"distinct_never_merge", fmt.Sprintf("metric steps %d (scope (%q, %q), kind %d, name %q) and %d (scope (%q, %q), kind %d, name %q) have different identities but share one metric", i, o.idents[o.metScope[i]].prefix, o.idents[o.metScope[i]].tags, o.metKind[i], o.metName[i], j, o.idents[o.metScope[j]].prefix, o.idents[o.metScope[j]].tags, o.metKind[j], o.metName[j])})
			}
			if o.metCls[i] == o.metCls[j] && o.deliv[i].ok && o.deliv[j].ok && !sameDelivery(o.deliv[i], o.deliv[j]) {
				fs = append(fs, dFail{"one_metric_one_delivery_identity", fmt.Sprintf("metric steps %d and %d share a metric delivered under %v and %v", i, j, o.deliv[i], o.deliv[j])})
			}
		}
	}
	// every registry key is the public key of (prefix, effective tags) of a derived scope
	if o.fixed {
		want := map[string]bool{}
		for _, id := range o.idents {
			want[tally.KeyForPrefixedStringMap(id.prefix, id.tags)] = true
		}
		for _, k := range o.regKeys {
			if !want[k] {
				fs = append(fs, dFail{"registry_key_is_key_of_merged_map", fmt.Sprintf("registry holds key %q which is not KeyForPrefixedStringMap of any derived (prefix, effective tags)", k)})
			}
		}
		for k := range want {
			found := false
			for _, r := range o.regKeys {
				found = found || r == k
			}
			if !found {
				fs = append(fs, dFail{"registry_key_is_key_of_merged_map", fmt.Sprintf("no registry entry under %q", k)})
			}
		}
	}
	return fs
}

// derivTerm prints the case for Corr/DerivCorr.v.
func derivTerm(idx int, c *dCase, o *derivOut) string {
	cmpIds, cmpReg := int64(0), int64(0)
	if o.fixed || c.Shards == 1 {
		cmpIds = 1
	}
	obs := append([]Ev(nil), o.obs...)
	if o.fixed {
		cmpReg = 1
		obs = append(obs, Ev{K: 5, S: o.regKeys})
	}
	return gcase(idx, []int64{1, int64(c.Shards), cmpIds, cmpReg}, o.in, obs)
}

// ---- key mode ----

type keyOut struct {
	in, obs []Ev
	key     string
	fails   []dFail
}

func keyRun(k keyIn) *keyOut {
	o := &keyOut{}
	m := pairsMap(k.Map)
	if m == nil {
		m = map[string]string{}
	}
	before := copyMap(m)
	o.key = tally.KeyForPrefixedStringMap(string(k.Prefix), m)
	o.in = []Ev{{K: 70, S: []string{string(k.Prefix)}}, {K: 71, S: flatPairs(k.Map)}}
	o.obs = []Ev{{K: 72, S: []string{o.key}}}
	if k.Prefix == "" {
		o.obs = append(o.obs, Ev{K: 73, S: []string{tally.KeyForStringMap(m)}})
	}
	// deterministic and independent of the order in which the map was filled
	m2 := make(map[string]string, 64)
	for i := len(k.Map) - 1; i >= 0; i-- {
		m2[string(k.Map[i][0])] = string(k.Map[i][1])
	}
	for i := 0; i < 3; i++ {
		if k2 := tally.KeyForPrefixedStringMap(string(k.Prefix), m2); k2 != o.key {
			o.fails = append(o.fails, dFail{"key_deterministic_order_independent", fmt.Sprintf("KeyForPrefixedStringMap(%q, %q) gave %q and %q", k.Prefix, m, o.key, k2)})
			break
		}
	}
	if !mapsEqual(m, before) {
		o.fails = append(o.fails, dFail{"caller_map_not_mutated", "the key function changed its argument"})
	}
	return o
}

func keyTerm(idx int, o *keyOut) string { return gcase(idx, []int64{0}, o.in, o.obs) }

// ---- running one case for a property ----

func shardClass(n int) string {
	switch {
	case n <= 1:
		return "1"
	case n == 2:
		return "2"
	case n <= 16:
		return "3-16"
	default:
		return "17-64"
	}
}

// derivOne runs one case, records it and reports predicate failures.
// prop selects the predicates (C04: names and tags; C05: identities and keys).
func derivOne(ctx *Ctx, c *dCase, prop string) {
	known := map[string]string{"empty-key": "F05a", "delims": "F05b"}[c.Stream]
	report := func(f dFail, cs interface{}, obs interface{}) {
		if known != "" {
			ctx.FailKnown(known, f.pred, f.what, cs, obs)
		} else {
			ctx.Fail(f.pred, f.what, cs, obs)
		}
	}
	if c.Mode == "key" {
		outs := make([]*keyOut, len(c.Keys))
		var fails []dFail
		canonical := true
		for i, k := range c.Keys {
			outs[i] = keyRun(k)
			fails = append(fails, outs[i].fails...)
			if outs[i].key != refKey(string(k.Prefix), pairsMap(k.Map)) {
				canonical = false
			}
		}
		// the documented format, for inputs without a delimiter anywhere: prefix '+' then the
		// bindings sorted by key as k=v joined by ',' (independent computation: refKey)
		if c.Stream != "empty-key" {
			for i, k := range c.Keys {
				free := !strings.ContainsAny(string(k.Prefix), "+,=")
				for _, p := range k.Map {
					free = free && !strings.ContainsAny(string(p[0]), "+,=") && !strings.ContainsAny(string(p[1]), "+,=")
				}
				if want := refKey(string(k.Prefix), pairsMap(k.Map)); free && outs[i].key != want {
					fails = append(fails, dFail{"key_is_documented_format", fmt.Sprintf("KeyForPrefixedStringMap(%q, %q) = %q; prefix, keys and values hold no delimiter, so the key must be %q", k.Prefix, pairsMap(k.Map), outs[i].key, want)})
				}
			}
		}
		if len(c.Keys) == 2 && c.Stream == "near-delims" {
			// one of the two holds a delimiter (F05b's region), yet their documented keys differ:
			// they are two identities and must not get one key
			a, b := c.Keys[0], c.Keys[1]
			ra, rb := refKey(string(a.Prefix), pairsMap(a.Map)), refKey(string(b.Prefix), pairsMap(b.Map))
			if ra != rb && outs[0].key == outs[1].key {
				fails = append(fails, dFail{"distinct_identities_distinct_keys", fmt.Sprintf("(%q, %q) and (%q, %q) share the key %q although their keys in the documented format, %q and %q, differ", a.Prefix, pairsMap(a.Map), b.Prefix, pairsMap(b.Map), outs[0].key, ra, rb)})
			}
		} else if len(c.Keys) == 2 {
			a, b := c.Keys[0], c.Keys[1]
			same := a.Prefix == b.Prefix && mapsEqual(pairsMap(a.Map), pairsMap(b.Map))
			if same && outs[0].key != outs[1].key {
				fails = append(fails, dFail{"same_identity_same_key", fmt.Sprintf("(%q, %q) has keys %q and %q", a.Prefix, pairsMap(a.Map), outs[0].key, outs[1].key)})
			}
			if !same && outs[0].key == outs[1].key {
				fails = append(fails, dFail{"distinct_identities_distinct_keys", fmt.Sprintf("(%q, %q) and (%q, %q) share the key %q", a.Prefix, pairsMap(a.Map), b.Prefix, pairsMap(b.Map), outs[0].key)})
			}
		}
		if c.Stream == "empty-key" && !canonical && len(fails) == 0 {
			// the deviation of the pinned key writer (separator skipped after an empty key) that
			// underlies F05a; by itself it is reported as the finding, with the canonical form
			k := c.Keys[0]
			fails = append(fails, dFail{"key_is_canonical_form", fmt.Sprintf("key of (%q, %q) is %q, canonical form %q: the pair separator is skipped after an empty tag key, which makes distinct identities collide", k.Prefix, pairsMap(k.Map), outs[0].key, refKey(string(k.Prefix), pairsMap(k.Map)))})
		}
		withhold := c.Stream == "empty-key" && (!canonical || len(fails) > 0)
		for i, o := range outs {
			term := ""
			idx := ctx.Res.Evaluations
			if !withhold {
				term = keyTerm(idx, o)
			}
			nt := ""
			if len(c.Keys[i].Map) >= 2 {
				nt = hashOf(c.Keys[i])
			}
			ctx.Case(c, term, "key/"+c.Stream, nt)
		}
		for _, f := range fails {
			report(f, c, []string{outs[0].key})
		}
		return
	}
	o := derivRun(c)
	var fails []dFail
	if o.panicked != "" {
		fails = append(fails, dFail{"no_panic", "the implementation panicked: " + o.panicked})
	}
	for _, f := range o.fails {
		if prop == "C04" || !strings.HasPrefix(f.pred, "caller_map") {
			fails = append(fails, f)
		}
	}
	if prop == "C04" {
		fails = append(fails, derivC04(c, o)...)
	} else if !o.collide {
		fails = append(fails, derivC05(c, o)...)
	}
	canonical := true
	if c.Stream == "empty-key" {
		want := map[string]bool{}
		for _, id := range o.idents {
			want[refKey(id.prefix, id.tags)] = true
		}
		for _, k := range o.regKeys {
			canonical = canonical && want[k]
		}
		if !canonical && len(fails) == 0 {
			fails = append(fails, dFail{"key_is_canonical_form", fmt.Sprintf("registry keys %q are not the canonical keys of the derived identities (empty tag key)", o.regKeys)})
		}
	}
	term := ""
	idx := ctx.Res.Evaluations
	switch c.Stream {
	case "collide":
	case "close": // Close / drop / re-derive cycles are C07's model; here only the direct predicates
	case "empty-key":
		if canonical && len(fails) == 0 {
			term = derivTerm(idx, c, o)
		}
	case "delims":
		if c.San == 0 && o.panicked == "" {
			term = derivTerm(idx, c, o)
		}
	default:
		if o.panicked == "" {
			term = derivTerm(idx, c, o)
		}
	}
	nt := ""
	if len(c.Ops) >= 2 {
		nt = hashOf(c)
	}
	ctx.Case(c, term, fmt.Sprintf("%s/%s/san=%d/shards=%s/fixed=%v", c.Stream, c.Rep, c.San, shardClass(c.Shards), o.fixed), nt)
	type obsT struct {
		ScopeClasses []int      `json:"scope_classes"`
		MetClasses   []int      `json:"metric_classes"`
		Delivered    []delivery `json:"delivered"`
		RegKeys      []B        `json:"registry_keys"`
	}
	ob := obsT{ScopeClasses: o.scopeCls, MetClasses: o.metCls, Delivered: o.deliv}
	for _, k := range o.regKeys {
		ob.RegKeys = append(ob.RegKeys, B(k))
	}
	for _, f := range fails {
		report(f, c, ob)
	}
}
