package main

// C19: "Capabilities() is the conjunction of the children's capabilities" - also for a value obtained
// earlier while another goroutine is evaluating Capabilities() (a child's Capabilities() call is held),
// and for goroutines evaluating it at the same time.  Direct predicate.

import (
	"fmt"
	"runtime"
	"sync"
	"sync/atomic"
	"time"

	tally "github.com/uber-go/tally/v4"
	"github.com/uber-go/tally/v4/multi"
)

type c19GateCaps struct {
	*RecReporter
	calls   int32
	entered chan struct{}
	release chan struct{}
}

func (g *c19GateCaps) Capabilities() tally.Capabilities {
	if atomic.CompareAndSwapInt32(&g.calls, 1, 2) { // armed: this call is held inside the child
		close(g.entered)
		<-g.release
	}
	return g.RecReporter.Capabilities()
}

type c19GateCapsC struct {
	*RecCached
	calls   int32
	entered chan struct{}
	release chan struct{}
}

func (g *c19GateCapsC) Capabilities() tally.Capabilities {
	if atomic.CompareAndSwapInt32(&g.calls, 1, 2) {
		close(g.entered)
		<-g.release
	}
	return g.RecCached.Capabilities()
}

// c19Caps: children = pos capable ones, then one without tagging (its second Capabilities() call is
// held), then more capable ones.  A first evaluation completes; a second one is started and held inside
// the child; the result of the FIRST evaluation must still say "no tagging"; afterwards G goroutines
// evaluate at the same time and none may see tagging = true.
func c19Caps(cached bool, pos, after int) string {
	log := &Log{}
	entered, release := make(chan struct{}), make(chan struct{})
	var caps1 tally.Capabilities
	var eval func() tally.Capabilities
	var arm *int32
	if cached {
		var kids []tally.CachedStatsReporter
		for i := 0; i < pos; i++ {
			kids = append(kids, &RecCached{L: log, Src: i, Caps: caps{true, true}})
		}
		gc := &c19GateCapsC{RecCached: &RecCached{L: log, Src: pos, Caps: caps{true, false}}, entered: entered, release: release}
		arm = &gc.calls
		kids = append(kids, gc)
		for i := 0; i < after; i++ {
			kids = append(kids, &RecCached{L: log, Src: pos + 1 + i, Caps: caps{true, true}})
		}
		m := multi.NewMultiCachedReporter(kids...)
		eval = m.Capabilities
	} else {
		var kids []tally.StatsReporter
		for i := 0; i < pos; i++ {
			kids = append(kids, &RecReporter{L: log, Src: i, Caps: caps{true, true}})
		}
		gp := &c19GateCaps{RecReporter: &RecReporter{L: log, Src: pos, Caps: caps{true, false}}, entered: entered, release: release}
		arm = &gp.calls
		kids = append(kids, gp)
		for i := 0; i < after; i++ {
			kids = append(kids, &RecReporter{L: log, Src: pos + 1 + i, Caps: caps{true, true}})
		}
		m := multi.NewMultiReporter(kids...)
		eval = m.Capabilities
	}
	caps1 = eval()
	if caps1.Tagging() || !caps1.Reporting() {
		return fmt.Sprintf("child %d of %d has no tagging: Capabilities() = (reporting %v, tagging %v)", pos, pos+1+after, caps1.Reporting(), caps1.Tagging())
	}
	done := make(chan tally.Capabilities, 1)
	atomic.StoreInt32(arm, 1)
	go func() { done <- eval() }()
	<-entered
	t1 := caps1.Tagging()
	close(release)
	caps2 := <-done
	if t1 {
		return fmt.Sprintf("child %d of %d has no tagging; the value returned by an earlier Capabilities() call says tagging = true while another goroutine is inside Capabilities() (held in that child's Capabilities())", pos, pos+1+after)
	}
	if caps2.Tagging() || caps1.Tagging() {
		return fmt.Sprintf("child %d of %d has no tagging: a later Capabilities() says tagging = %v, the earlier value now says %v", pos, pos+1+after, caps2.Tagging(), caps1.Tagging())
	}
	// free-running
	var bad int32
	var ready, go_ int32
	var wg sync.WaitGroup
	const G = 4
	for g := 0; g < G; g++ {
		wg.Add(1)
		go func() {
			defer wg.Done()
			atomic.AddInt32(&ready, 1)
			for atomic.LoadInt32(&go_) == 0 {
				runtime.Gosched()
			}
			for k := 0; k < 20000 && atomic.LoadInt32(&bad) == 0; k++ {
				c := eval()
				if c.Tagging() || !c.Reporting() {
					atomic.StoreInt32(&bad, 1)
				}
			}
		}()
	}
	for atomic.LoadInt32(&ready) < G {
		runtime.Gosched()
	}
	atomic.StoreInt32(&go_, 1)
	wg.Wait()
	if bad != 0 {
		return fmt.Sprintf("child %d of %d has no tagging; %d goroutines evaluated Capabilities() at the same time and one of them saw tagging = true (or reporting = false)", pos, pos+1+after, G)
	}
	return ""
}

// c19Dup: "every call is forwarded to every child exactly once" is per POSITION in the child list: a
// reporter listed twice is two children (it sees every call, Flush included, twice), and two children
// that are equal as values stay two children.
type c19Val struct {
	L    *Log
	Src  int
	Caps caps
}

func (v c19Val) Capabilities() tally.Capabilities { return v.Caps }
func (v c19Val) Flush()                           { v.L.add(Ev{Src: v.Src, K: 6}) }
func (v c19Val) ReportCounter(name string, tags map[string]string, x int64) {
	v.L.add(Ev{Src: v.Src, K: 1, I: []int64{x}})
}
func (v c19Val) ReportGauge(name string, tags map[string]string, x float64) {
	v.L.add(Ev{Src: v.Src, K: 2})
}
func (v c19Val) ReportTimer(name string, tags map[string]string, d time.Duration) {
	v.L.add(Ev{Src: v.Src, K: 3})
}
func (v c19Val) ReportHistogramValueSamples(string, map[string]string, tally.Buckets, float64, float64, int64) {
	v.L.add(Ev{Src: v.Src, K: 4})
}
func (v c19Val) ReportHistogramDurationSamples(string, map[string]string, tally.Buckets, time.Duration, time.Duration, int64) {
	v.L.add(Ev{Src: v.Src, K: 5})
}

func c19Dup(shape int) (fail string) {
	defer func() {
		if p := recover(); p != nil {
			fail = fmt.Sprintf("the multi reporter panicked: %v", p)
		}
	}()
	log := &Log{}
	count := func() (calls, flushes int) {
		for _, e := range log.Snapshot() {
			if e.K == 6 {
				flushes++
			} else if e.K >= 1 && e.K <= 5 {
				calls++
			}
		}
		return
	}
	var m tally.StatsReporter
	what := ""
	switch shape {
	case 0:
		a := &RecReporter{L: log, Src: 0, Caps: caps{true, true}}
		b := &RecReporter{L: log, Src: 1, Caps: caps{true, true}}
		m, what = multi.NewMultiReporter(a, b, a), "children [a, b, a] (one reporter listed twice)"
	case 1:
		v := c19Val{L: log, Src: 0, Caps: caps{true, true}}
		m, what = multi.NewMultiReporter(v, v, v), "three children that are equal values of a struct type"
	default:
		a := &RecCached{L: log, Src: 0, Caps: caps{true, true}}
		mc := multi.NewMultiCachedReporter(a, a)
		mc.AllocateCounter("c", nil).ReportCount(1)
		mc.Flush()
		calls, flushes := 0, 0
		for _, e := range log.Snapshot() {
			if e.K == 21 {
				calls++
			}
			if e.K == 6 {
				flushes++
			}
		}
		if calls != 2 || flushes != 2 {
			return fmt.Sprintf("cached multi reporter with children [a, a] (one reporter listed twice): one ReportCount and one Flush reached the children %d and %d times (expected 2 and 2: once per child position)", calls, flushes)
		}
		return ""
	}
	m.ReportCounter("c", nil, 1)
	m.ReportGauge("g", nil, 1)
	m.ReportTimer("t", nil, time.Second)
	m.Flush()
	calls, flushes := count()
	if calls != 9 || flushes != 3 {
		return fmt.Sprintf("multi reporter with %s: three Report calls and one Flush reached the children %d and %d times (expected 9 and 3: once per child position)", what, calls, flushes)
	}
	return ""
}

// c19FirstCalls: the very first Flush / Capabilities calls on a freshly built multi reporter come from
// several goroutines at once; afterwards one more Flush must reach every child exactly once.
func c19FirstCalls(cached bool, rounds int) string {
	for r := 0; r < rounds; r++ {
		log := &Log{}
		const nk = 3
		var flush func()
		var capsOf func() tally.Capabilities
		if cached {
			var kids []tally.CachedStatsReporter
			for i := 0; i < nk; i++ {
				kids = append(kids, &RecCached{L: log, Src: i, Caps: caps{true, true}})
			}
			m := multi.NewMultiCachedReporter(kids...)
			flush, capsOf = m.Flush, m.Capabilities
		} else {
			var kids []tally.StatsReporter
			for i := 0; i < nk; i++ {
				kids = append(kids, &RecReporter{L: log, Src: i, Caps: caps{true, true}})
			}
			m := multi.NewMultiReporter(kids...)
			flush, capsOf = m.Flush, m.Capabilities
		}
		var ready, go_ int32
		var wg sync.WaitGroup
		const G = 4
		for g := 0; g < G; g++ {
			g := g
			wg.Add(1)
			go func() {
				defer wg.Done()
				atomic.AddInt32(&ready, 1)
				for atomic.LoadInt32(&go_) == 0 {
					runtime.Gosched()
				}
				if g%2 == 0 {
					flush()
				} else {
					capsOf()
				}
			}()
		}
		for atomic.LoadInt32(&ready) < G {
			runtime.Gosched()
		}
		atomic.StoreInt32(&go_, 1)
		wg.Wait()
		before := make([]int, nk)
		for _, e := range log.Snapshot() {
			if e.K == 6 {
				before[e.Src]++
			}
		}
		flush()
		after := make([]int, nk)
		for _, e := range log.Snapshot() {
			if e.K == 6 {
				after[e.Src]++
			}
		}
		for i := 0; i < nk; i++ {
			if before[i] != G/2 || after[i]-before[i] != 1 {
				return fmt.Sprintf("round %d: the first calls on a new multi reporter with %d children came from %d goroutines at once (%d Flush, %d Capabilities); child %d was flushed %d times by them (expected %d) and %d times by one more Flush (expected 1); per child: %v then %v",
					r, nk, G, G/2, G/2, i, before[i], G/2, after[i]-before[i], before, after)
			}
		}
	}
	return ""
}
