package main

// C01 streams in which only the RECORDING side is concurrent ("Counter increments are delivered
// exactly once ... histogram bucket sample counts use the same mechanism"; quantifier: any number of
// goroutines incrementing).  No pass overlaps the recording: goroutines start from a spin barrier,
// record, finish; then one pass runs and the deliveries must add up.  Direct predicates only.

import (
	"fmt"
	"runtime"
	"sync"
	"sync/atomic"
	"time"

	tally "github.com/uber-go/tally/v4"
)

func c01Barrier(par int, f func(i int)) {
	var ready, go_ int32
	var wg sync.WaitGroup
	for i := 0; i < par; i++ {
		wg.Add(1)
		go func(i int) {
			defer wg.Done()
			atomic.AddInt32(&ready, 1)
			for atomic.LoadInt32(&go_) == 0 {
				runtime.Gosched()
			}
			f(i)
		}(i)
	}
	for atomic.LoadInt32(&ready) < int32(par) {
		runtime.Gosched()
	}
	atomic.StoreInt32(&go_, 1)
	wg.Wait()
}

// c01FirstUse: par goroutines ask one live scope for the same, not yet existing counter at the same
// moment and increment the handle they were given; one pass; the deliveries for that counter must add
// up to everything that was incremented through any of the handles.
func c01FirstUse(cached bool, rounds, par int) string {
	log := &Log{}
	opts := tally.ScopeOptions{OmitCardinalityMetrics: true}
	if cached {
		opts.CachedReporter = &RecCached{L: log, Caps: caps{true, true}}
	} else {
		opts.Reporter = &RecReporter{L: log, Caps: caps{true, true}}
	}
	root, closer := tally.VerifNewRootScope(opts, 0, 1)
	defer closer.Close()
	sub := root.Tagged(map[string]string{"k": "v"})
	for k := 0; k < rounds; k++ {
		sc := root
		if k%2 == 1 {
			sc = sub
		}
		name := fmt.Sprintf("c%d", k)
		var want int64
		for i := 0; i < par; i++ {
			want += int64(i + 1)
		}
		c01Barrier(par, func(i int) { sc.Counter(name).Inc(int64(i + 1)) })
		tally.VerifReportOnce(root)
		var got int64
		alloc := map[int64]string{}
		for _, e := range log.Snapshot() {
			switch e.K {
			case 1:
				if e.S[0] == name {
					got += e.I[0]
				}
			case 11:
				alloc[e.I[0]] = e.S[0]
			case 21:
				if alloc[e.I[0]] == name {
					got += e.I[1]
				}
			}
		}
		if got != want {
			return fmt.Sprintf("%d goroutines asked one scope for the new counter %q at the same moment and incremented the handle they were given by 1..%d (total %d); the pass that followed delivered %d for that counter (round %d)",
				par, name, par, want, got, k)
		}
	}
	return ""
}

// c01HistRecorders: par goroutines record one sample each into DIFFERENT buckets of a fresh histogram
// at the same moment; one pass; every bucket must be delivered with its one sample.
func c01HistRecorders(cached, dur bool, rounds, par int) string {
	sink := &c03Sink{cnt: map[float64]int64{}}
	opts := tally.ScopeOptions{OmitCardinalityMetrics: true}
	if cached {
		opts.CachedReporter = c03SinkC{sink}
	} else {
		opts.Reporter = sink
	}
	root, closer := tally.VerifNewRootScope(opts, 0, 1)
	defer closer.Close()
	bounds := []float64{1, 2, 3, 4, 5, 6, 7, 8, 9, 10, 11, 12}
	want := map[float64]int64{}
	for k := 0; k < rounds; k++ {
		var h tally.Histogram
		name := fmt.Sprintf("h%d", k)
		if dur {
			var db tally.DurationBuckets
			for _, b := range bounds {
				db = append(db, time.Duration(b))
			}
			h = root.Histogram(name, db)
		} else {
			h = root.Histogram(name, tally.ValueBuckets(bounds))
		}
		off := k % (len(bounds) - par + 1)
		c01Barrier(par, func(i int) {
			v := bounds[off+(i*5)%par] // distinct buckets (for par coprime to 5), not in index order
			if dur {
				h.RecordDuration(time.Duration(v))
			} else {
				h.RecordValue(v)
			}
		})
		for i := 0; i < par; i++ {
			want[bounds[off+(i*5)%par]]++
		}
		tally.VerifReportOnce(root)
		sink.mu.Lock()
		bad := ""
		for u, n := range want {
			if sink.cnt[u] != n {
				bad = fmt.Sprintf("%d goroutines recorded one sample each into different buckets of the fresh histogram %q at the same moment (no pass running); after the pass that followed, the bucket with upper bound %v has %d samples recorded over all rounds and %d delivered (round %d)",
					par, name, u, n, sink.cnt[u], k)
			}
		}
		sink.mu.Unlock()
		if bad != "" {
			return bad
		}
	}
	return ""
}
