package main

// C01 streams in which only the RECORDING side is concurrent ("Counter increments are delivered
// exactly once ... histogram bucket sample counts use the same mechanism"; quantifier: any number of
// goroutines incrementing).  No pass overlaps the recording: goroutines start from a spin barrier,
// record, finish; then one pass runs and the deliveries must add up.  Direct predicates only.

import (
	"fmt"
	"runtime"
	"sync"
	"sync/atomic"
	"time"

	tally "github.com/uber-go/tally/v4"
)

func c01Barrier(par int, f func(i int)) {
	var ready, go_ int32
	var wg sync.WaitGroup
	for i := 0; i < par; i++ {
		wg.Add(1)
		go func(i int) {
			defer wg.Done()
			atomic.AddInt32(&ready, 1)
			for atomic.LoadInt32(&go_) == 0 {
				runtime.Gosched()
			}
			f(i)
		}(i)
	}
	for atomic.LoadInt32(&ready) < int32(par) {
		runtime.Gosched()
	}
	atomic.StoreInt32(&go_, 1)
	wg.Wait()
}

// c01FirstUse: par goroutines ask one live scope for the same, not yet existing counter at the same
// moment and increment the handle they were given; one pass; the deliveries for that counter must add
// up to everything that was incremented through any of the handles.
func c01FirstUse(cached bool, rounds, par int) string {
	log := &Log{}
	opts := tally.ScopeOptions{OmitCardinalityMetrics: true}
	if cached {
		opts.CachedReporter = &RecCached{L: log, Caps: caps{true, true}}
	} else {
		opts.Reporter = &RecReporter{L: log, Caps: caps{true, true}}
	}
	root, closer := tally.VerifNewRootScope(opts, 0, 1)
	defer closer.Close()
	sub := root.Tagged(map[string]string{"k": "v"})
	for k := 0; k < rounds; k++ {
		sc := root
		if k%2 == 1 {
			sc = sub
		}
		name := fmt.Sprintf("c%d", k)
		var want int64
		for i := 0; i < par; i++ {
			want += int64(i + 1)
		}
		c01Barrier(par, func(i int) { sc.Counter(name).Inc(int64(i + 1)) })
		tally.VerifReportOnce(root)
		var got int64
		alloc := map[int64]string{}
		for _, e := range log.Snapshot() {
			switch e.K {
			case 1:
				if e.S[0] == name {
					got += e.I[0]
				}
			case 11:
				alloc[e.I[0]] = e.S[0]
			case 21:
				if alloc[e.I[0]] == name {
					got += e.I[1]
				}
			}
		}
		if got != want {
			return fmt.Sprintf("%d goroutines asked one scope for the new counter %q at the same moment and incremented the handle they were given by 1..%d (total %d); the pass that followed delivered %d for that counter (round %d)",
				par, name, par, want, got, k)
		}
	}
	return ""
}

// c01HistRecorders: par goroutines record one sample each into DIFFERENT buckets of a fresh histogram
// at the same moment; one pass; every bucket must be delivered with its one sample.
func c01HistRecorders(cached, dur bool, rounds, par int) string {
	sink := &c03Sink{cnt: map[float64]int64{}}
	opts := tally.ScopeOptions{OmitCardinalityMetrics: true}
	if cached {
		opts.CachedReporter = c03SinkC{sink}
	} else {
		opts.Reporter = sink
	}
	root, closer := tally.VerifNewRootScope(opts, 0, 1)
	defer closer.Close()
	bounds := []float64{1, 2, 3, 4, 5, 6, 7, 8, 9, 10, 11, 12}
	want := map[float64]int64{}
	for k := 0; k < rounds; k++ {
		var h tally.Histogram
		name := fmt.Sprintf("h%d", k)
		if dur {
			var db tally.DurationBuckets
			for _, b := range bounds {
				db = append(db, time.Duration(b))
			}
			h = root.Histogram(name, db)
		} else {
			h = root.Histogram(name, tally.ValueBuckets(bounds))
		}
		off := k % (len(bounds) - par + 1)
		c01Barrier(par, func(i int) {
			v := bounds[off+(i*5)%par] // distinct buckets (for par coprime to 5), not in index order
			if dur {
				h.RecordDuration(time.Duration(v))
			} else {
				h.RecordValue(v)
			}
		})
		for i := 0; i < par; i++ {
			want[bounds[off+(i*5)%par]]++
		}
		tally.VerifReportOnce(root)
		sink.mu.Lock()
		bad := ""
		for u, n := range want {
			if sink.cnt[u] != n {
				bad = fmt.Sprintf("%d goroutines recorded one sample each into different buckets of the fresh histogram %q at the same moment (no pass running); after the pass that followed, the bucket with upper bound %v has %d samples recorded over all rounds and %d delivered (round %d)",
					par, name, u, n, sink.cnt[u], k)
			}
		}
		sink.mu.Unlock()
		if bad != "" {
			return bad
		}
	}
	return ""
}

// c01Stale: per round a subscope with counters is used, closed and dropped (by a pass, or by asking for
// it again); new counters and a histogram are created on live scopes and incremented; the old handles
// are incremented too (harmless: their scope is gone).  What is delivered for every LIVE counter and
// histogram bucket must add up to exactly what was recorded through ITS handle.
func c01Stale(cached, byPass bool, rounds int) string {
	log := &Log{}
	opts := tally.ScopeOptions{OmitCardinalityMetrics: true}
	if cached {
		opts.CachedReporter = &RecCached{L: log, Caps: caps{true, true}}
	} else {
		opts.Reporter = &RecReporter{L: log, Caps: caps{true, true}}
	}
	root, closer := tally.VerifNewRootScope(opts, 0, 1)
	defer closer.Close()
	want := map[string]int64{}
	var stale []tally.Counter
	for r := 0; r < rounds; r++ {
		tags := map[string]string{"round": fmt.Sprint(r)}
		sub := root.Tagged(tags)
		var mine []tally.Counter
		for i := 0; i < 3; i++ {
			c := sub.Counter(fmt.Sprintf("old%d", i))
			c.Inc(1)
			mine = append(mine, c)
		}
		sub.(interface{ Close() error }).Close()
		if byPass {
			tally.VerifReportOnce(root)
		} else {
			root.Tagged(tags) // the re-request reports and drops the closed scope, and registers a new one
		}
		stale = append(stale, mine...)
		for i := 0; i < 3; i++ {
			name := fmt.Sprintf("live%d_%d", r, i)
			root.Counter(name).Inc(int64(10 + i))
			want[name] += int64(10 + i)
		}
		h := root.Histogram(fmt.Sprintf("liveh%d", r), tally.ValueBuckets{1, 2})
		h.RecordValue(1.5)
		for _, c := range stale {
			c.Inc(7) // through handles of dropped scopes
		}
		tally.VerifReportOnce(root)
	}
	got := map[string]int64{}
	alloc := map[int64]string{}
	hist := map[int64]string{}
	for _, e := range log.Snapshot() {
		switch e.K {
		case 1:
			got[e.S[0]] += e.I[0]
		case 11, 14:
			alloc[e.I[0]] = e.S[0]
		case 21:
			got[alloc[e.I[0]]] += e.I[1]
		case 4:
			got[e.S[0]] += e.I[2]
		case 24:
			hist[e.I[3]] = alloc[e.I[0]]
		case 26:
			got[hist[e.I[0]]] += e.I[1]
		}
	}
	for r := 0; r < rounds; r++ {
		want[fmt.Sprintf("liveh%d", r)] = 1
	}
	for n, w := range want {
		if got[n] != w {
			return fmt.Sprintf("%q: %d recorded through its handle, %d delivered (counters of subscopes that had been closed and dropped before it was created were incremented by 7 through their old handles)", n, w, got[n])
		}
	}
	return ""
}
