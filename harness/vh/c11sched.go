package main

// C11, stream "sched": several goroutines derive scopes of one test scope, record on
// them and close subscopes, under a controlled interleaving over the yield points of
// scopeRegistry.Subscope (45: between the read-locked probe and the write lock) and of
// the metric getters (51..54: between the read-locked lookup and the write lock).
//
// Property text: "all record histories ... on a test scope, with snapshots taken at
// arbitrary points, also concurrently with recording" and "Test scopes and their
// metrics survive Close of a subscope and remain visible in later snapshots".
//
// The programs are built so that the final content does not depend on the schedule:
// only scopes that no path passes through are closed (so every derivation stays
// live whatever the order), counters and histogram samples commute, every gauge is
// written by one thread only, timer values are compared as multisets, and all
// histograms of a case use one specification. Direct predicate: the snapshot taken
// after all threads have finished equals the reference tally of all operations.

import (
	"fmt"
	"io"
	"math"
	"sort"
	"time"

	tally "github.com/uber-go/tally/v4"
)

// c11SetYield routes the registry's and the metric getters' yield points to the controller.
func c11SetYield(c *Ctl) {
	if c == nil {
		tally.VerifSetYield((func(int))(nil))
		return
	}
	tally.VerifSetYield(func(p int) {
		if p == 45 || (p >= 51 && p <= 54) {
			c.Yield(p)
		}
	})
}

func c11SchedGen(r *Rng, i int) c11Case {
	c := c11Case{Stream: "sched", Shards: []int{1, 2, 16, 0}[i%4], Prefix: B(r.Pick(c11Prefixes)), Tags: c11GenTags(r, 1)}
	subs := []string{"a", "b", "c", "req"}
	step := func() c11Step {
		if r.Chance(70) {
			return c11Step{N: B(r.Pick(subs))}
		}
		return c11Step{T: true, M: map[B]B{B(r.Pick(c11Keys)): B(r.Pick(c11Vals[:2]))}}
	}
	var paths [][]c11Step
	for j := r.Range(1, 3); j > 0; j-- {
		p := []c11Step{step()}
		if r.Chance(35) {
			p = append(p, step())
		}
		paths = append(paths, p)
	}
	// closable: the scope is not the root and no path of the pool passes through it
	rootTags := tagsOf(c.Tags)
	if rootTags == nil {
		rootTags = map[string]string{}
	}
	rf := &c11Ref{root: c11ID{string(c.Prefix), rootTags}, closed: map[string]bool{}, ents: map[string]*c11Ent{}}
	through := map[string]bool{rf.root.key(): true}
	for _, p := range paths {
		for k := 0; k < len(p); k++ {
			id, _ := rf.resolve(p[:k])
			through[id.key()] = true
		}
	}
	var closable [][]c11Step
	for _, p := range paths {
		if id, _ := rf.resolve(p); !through[id.key()] {
			closable = append(closable, p)
		}
	}
	dur := r.Chance(40)
	spec := c11GenSpec(r, dur, false)
	nth := r.Range(2, 4)
	for t := 0; t < nth; t++ {
		var prog []c11Op
		for j := r.Range(1, 4); j > 0; j-- {
			p := paths[r.Intn(len(paths))]
			switch x := r.Intn(100); {
			case x < 45:
				prog = append(prog, c11Op{Op: "inc", P: p, N: B(c11Names[r.Intn(3)]), V: int64(r.Range(1, 9))})
			case x < 55:
				prog = append(prog, c11Op{Op: "upd", P: p, N: B(fmt.Sprintf("g%d", t)), V: fbits(float64(r.Range(1, 9)))})
			case x < 65:
				prog = append(prog, c11Op{Op: "rec", P: p, N: B(c11Names[r.Intn(3)]), V: int64(r.Range(1, 1000))})
			case x < 75:
				op := "hv"
				if dur {
					op = "hd"
				}
				prog = append(prog, c11Op{Op: op, P: p, N: "h", V: c11GenSample(r, dur, spec), Spec: spec})
			default:
				if len(closable) > 0 {
					prog = append(prog, c11Op{Op: "close", P: closable[r.Intn(len(closable))]})
				} else {
					prog = append(prog, c11Op{Op: "inc", P: p, N: "a", V: 1})
				}
			}
		}
		c.Threads = append(c.Threads, prog)
	}
	// bursts: a thread runs for a few yield points, then another one
	for n := 0; n < 40; {
		t, k := r.Intn(nth), r.Range(1, 5)
		for ; k > 0; k-- {
			c.Sched = append(c.Sched, t)
			n++
		}
	}
	return c
}

// c11Exec derives the scope the operation's path denotes from ts and performs the
// operation on it (snapshots excepted); returns the derived scope.
func c11Exec(ts tally.TestScope, o *c11Op) tally.Scope {
	var sc tally.Scope = ts
	for _, st := range o.P {
		if st.T {
			sc = c11Tagged(sc, st.M)
		} else {
			sc = sc.SubScope(string(st.N))
		}
	}
	switch o.Op {
	case "inc":
		sc.Counter(string(o.N)).Inc(o.V)
	case "upd":
		sc.Gauge(string(o.N)).Update(math.Float64frombits(uint64(o.V)))
	case "rec":
		sc.Timer(string(o.N)).Record(time.Duration(o.V))
	case "hv":
		sc.Histogram(string(o.N), c11Buckets(false, o.Spec)).RecordValue(math.Float64frombits(uint64(o.V)))
	case "hd":
		sc.Histogram(string(o.N), c11Buckets(true, o.Spec)).RecordDuration(time.Duration(o.V))
	case "close":
		if sc != tally.NoopScope {
			if cl, ok := sc.(io.Closer); ok {
				cl.Close()
			}
		}
	}
	return sc
}

func c11SortTimers(evs []Ev) []Ev {
	out := make([]Ev, len(evs))
	for i, e := range evs {
		if e.K == 53 {
			e.I = append([]int64(nil), e.I...)
			sort.Slice(e.I, func(a, b int) bool { return e.I[a] < e.I[b] })
		}
		out[i] = e
	}
	return out
}

func c11Sched(ctx *Ctx, c *c11Case) {
	ts := c11NewScope(c)
	rootTags := tagsOf(c.Tags)
	if rootTags == nil {
		rootTags = map[string]string{}
	}
	rf := &c11Ref{root: c11ID{string(c.Prefix), rootTags}, closed: map[string]bool{}, ents: map[string]*c11Ent{}}
	ctl := NewCtl()
	c11SetYield(ctl)
	panics := make([]string, len(c.Threads))
	for t := range c.Threads {
		t := t
		ctl.Go(func() {
			defer func() {
				if p := recover(); p != nil {
					panics[t] = fmt.Sprint(p)
				}
			}()
			for i := range c.Threads[t] {
				c11Exec(ts, &c.Threads[t][i])
			}
		})
	}
	var labels []int
	for _, t := range c.Sched {
		if t < ctl.N() {
			labels = append(labels, ctl.Step(t))
		}
	}
	ctl.Drain()
	c11SetYield(nil)

	// the reference: every operation, whatever the order (closed scopes are leaves)
	for t := range c.Threads {
		for i := range c.Threads[t] {
			o := c.Threads[t][i]
			if o.Op != "close" {
				rf.apply(&o)
			}
		}
	}
	fail, pred := "", ""
	for t, p := range panics {
		if p != "" && fail == "" {
			pred, fail = "no_panic", fmt.Sprintf("thread %d panicked: %s", t, p)
		}
	}
	got, keyErr := c11Project(ts.Snapshot())
	if keyErr != "" && fail == "" {
		pred, fail = "entry_key_is_KeyForPrefixedStringMap", keyErr
	}
	if d := c11Diff(c11SortTimers(got), c11SortTimers(rf.expected())); d != "" && fail == "" {
		pred, fail = "snapshot_after_concurrent_history_equals_reference_tally",
			fmt.Sprintf("snapshot after all %d threads finished (schedule %v, yield labels %v): %s", len(c.Threads), c.Sched, labels, d)
	}
	closes := 0
	for _, p := range c.Threads {
		for _, o := range p {
			if o.Op == "close" {
				closes++
			}
		}
	}
	cl := "no-close"
	if closes > 0 {
		cl = "with-close"
	}
	ctx.Res.Schedules++
	ctx.Case(c, "", fmt.Sprintf("sched/shards=%d/threads=%d/%s", c.Shards, len(c.Threads), cl), "sched/"+hashOf(c))
	if fail != "" {
		ctx.Fail(pred, fail, c, got)
	}
}
