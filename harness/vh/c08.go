package main

// C08 — root Close is a complete, idempotent shutdown barrier.
// Controlled schedules over: a harness-driven report loop (tally.VerifLoop:
// the real reportLoopRun with the ticker replaced by the schedule's choice),
// any number of concurrent Close callers, and application goroutines
// recording on pre-obtained counters; plus uncontrolled runs with the real
// ticker and a slow reporter.

import (
	"encoding/json"
	"errors"
	"fmt"
	"runtime"
	"strings"
	"sync/atomic"
	"sync"
	"time"

	tally "github.com/uber-go/tally/v4"
)

type c08Thread struct {
	Kind string `json:"kind"` // loop | close | app
	O    int    `json:"o,omitempty"`
	N    int    `json:"n,omitempty"`
}
type c08Pick struct {
	I     int   `json:"i"`
	Tick  bool  `json:"tick"`
	Order []int `json:"order,omitempty"` // filled in after the run for the step that starts a pass
}
type c08Case struct {
	Cached  bool        `json:"cached"`
	Closer  bool        `json:"closer"` // the reporter implements io.Closer
	NObj    int         `json:"nobj"`   // registered scopes incl. the root
	Threads []c08Thread `json:"threads"`
	Sched   []c08Pick   `json:"sched"`
}
type c08Ev struct {
	Kind int   `json:"kind"` // 1 deliver, 2 flush, 3 reporter closed
	O    int   `json:"o,omitempty"`
	Amt  int64 `json:"amt,omitempty"`
}
type c08Out struct {
	Labels     []int64   `json:"labels"`
	Sched      []c08Pick `json:"sched"`
	Events     []c08Ev   `json:"events"`
	Applied    []int64   `json:"applied"`
	Delivered  []int64   `json:"delivered"`
	Fail       string    `json:"fail,omitempty"`
	Incomplete bool      `json:"incomplete,omitempty"`
}

var errCloser = errors.New("closer error")

func c08Exec(c *c08Case) (out c08Out) {
	log := &Log{}
	opts := tally.ScopeOptions{OmitCardinalityMetrics: true}
	switch {
	case c.Cached && c.Closer:
		opts.CachedReporter = &RecCachedCloser{RecCached: RecCached{L: log, Caps: caps{true, true}}, Err: errCloser}
	case c.Cached:
		opts.CachedReporter = &RecCached{L: log, Caps: caps{true, true}}
	case c.Closer:
		opts.Reporter = &RecCloser{RecReporter: RecReporter{L: log, Caps: caps{true, true}}, Err: errCloser}
	default:
		opts.Reporter = &RecReporter{L: log, Caps: caps{true, true}}
	}
	root, closer := tally.VerifNewRootScope(opts, 0, 1)
	ctrs := make([]tally.Counter, c.NObj)
	keyObj := map[string]int{tally.KeyForPrefixedStringMap("", nil): 0}
	ctrs[0] = root.Counter("c0")
	for i := 1; i < c.NObj; i++ {
		tags := map[string]string{"k": fmt.Sprintf("s%d", i)}
		ctrs[i] = root.Tagged(tags).Counter(fmt.Sprintf("c%d", i))
		keyObj[tally.KeyForPrefixedStringMap("", tags)] = i
	}
	ctl := NewCtl()
	var mu sync.Mutex
	lastKey := -1
	tally.VerifSetYield(func(p int) {
		if p == 0 || p == 31 || (p >= 60 && p <= 66) {
			ctl.Yield(p)
		}
	})
	tally.VerifSetNote(func(p int, key string) {
		mu.Lock()
		if o, ok := keyObj[key]; ok {
			lastKey = o
		} else {
			lastKey = -2
		}
		mu.Unlock()
	})
	nextTick := false
	defer func() {
		nextTick = false
		setYield(nil)
		tally.VerifSetNote((func(int, string))(nil))
	}()
	applied := make([]int64, c.NObj)
	type closeRes struct {
		returned  bool
		err       error
		logLen    int
		snapshot  []int64 // applied when Close was called
		loopsDone bool
	}
	res := map[int]*closeRes{}
	var loops []int
	for ti, th := range c.Threads {
		ti, th := ti, th
		switch th.Kind {
		case "loop":
			tally.VerifLoopAdd(root)
			loops = append(loops, ti)
			ctl.Go(func() { tally.VerifLoop(root, func() bool { return nextTick }) })
		case "close":
			r := &closeRes{}
			res[ti] = r
			ctl.Go(func() {
				mu.Lock()
				r.snapshot = append([]int64(nil), applied...)
				mu.Unlock()
				r.err = closer.Close()
				r.logLen = log.Len()
				r.loopsDone = true
				for _, l := range loops {
					if !ctl.Done(l) {
						r.loopsDone = false
					}
				}
				r.returned = true
			})
		case "app":
			ctl.Go(func() {
				for j := 0; j < th.N; j++ {
					if j > 0 {
						ctl.Yield(0)
					}
					ctrs[th.O].Inc(1)
					mu.Lock()
					applied[th.O]++
					mu.Unlock()
				}
			})
		}
	}
	last := make([]int, len(c.Threads))
	started := make([]bool, len(c.Threads))
	passStart := map[int]int{} // thread -> index in out.Sched of the step that started its current pass
	waiting := map[int]bool{} // Close callers seen blocked in wg.Wait()
	blockedAt := map[int]int{} // thread -> number of executed steps when it was last seen blocked on a lock
	loopsDone := func() bool {
		for _, l := range loops {
			if !ctl.Done(l) {
				return false
			}
		}
		return true
	}
	enabled := func(i int) bool {
		if ctl.Done(i) {
			return false
		}
		// a caller that was observed to block waiting for the loop goroutine is
		// not resumed again before every loop has returned
		if waiting[i] && !loopsDone() {
			return false
		}
		// blocked on a lock: wait until some other thread has moved
		if at, ok := blockedAt[i]; ok && at == len(out.Labels) {
			return false
		}
		return true
	}
	step := func(pk c08Pick) {
		i := pk.I
		if i >= len(c.Threads) || !enabled(i) {
			return
		}
		nextTick = pk.Tick
		prev := last[i]
		l := ctl.Step(i)
		if l == Stutter {
			return
		}
		if l == Blocked {
			if started[i] && last[i] == 65 {
				waiting[i] = true // wg.Wait(): a stutter, the step completes once the loop has returned
				return
			}
			// blocked on a lock held by a parked goroutine: the step completes by itself
			// later; the executed order is then not determined by the schedule alone
			out.Incomplete = true
			blockedAt[i] = len(out.Labels)
			return
		}
		delete(blockedAt, i)
		started[i] = true
		last[i] = l
		out.Labels = append(out.Labels, int64(l))
		out.Sched = append(out.Sched, c08Pick{I: i, Tick: pk.Tick})
		if l == 31 {
			mu.Lock()
			k := lastKey
			mu.Unlock()
			if prev == 62 || prev == 63 {
				passStart[i] = len(out.Sched) - 1
			}
			ps := passStart[i]
			out.Sched[ps].Order = append(out.Sched[ps].Order, k)
		}
	}
	// bring every loop goroutine to its first yield (label 60): the model's loop
	// thread starts parked there
	for _, l := range loops {
		if lab := ctl.Step(l); lab == 60 {
			last[l] = 60
			started[l] = true
		}
	}
	for _, pk := range c.Sched {
		step(pk)
	}
	// complete: loops take done (no more ticks), everything else runs to its end
	for g := 0; g < 20000 && !ctl.AllDone(); g++ {
		progressed := false
		for i := range c.Threads {
			if enabled(i) {
				before := len(out.Labels)
				closeCalled := false
				for _, th := range c.Threads {
					if th.Kind == "close" {
						closeCalled = true
					}
				}
				step(c08Pick{I: i, Tick: !closeCalled})
				if len(out.Labels) > before {
					progressed = true
				}
			}
		}
		if !progressed {
			break
		}
	}
	if !ctl.AllDone() {
		// no Close caller: loops never end by themselves; stop them by closing the root
		out.Incomplete = true
		nextTick = false
		setYield(nil)
		closer.Close()
		ctl.Drain()
	}
	// observables
	alloc := map[int64]int{}
	del := make([]int64, c.NObj)
	idx := func(name string) int {
		var o int
		fmt.Sscanf(name, "c%d", &o)
		return o
	}
	evs := log.Snapshot()
	evAt := make([]int, 0, len(evs)) // log index of each projected event
	for li, e := range evs {
		switch e.K {
		case 1:
			o := idx(e.S[0])
			out.Events = append(out.Events, c08Ev{Kind: 1, O: o, Amt: e.I[0]})
			del[o] += e.I[0]
		case 11:
			alloc[e.I[0]] = idx(e.S[0])
			continue
		case 21:
			o := alloc[e.I[0]]
			out.Events = append(out.Events, c08Ev{Kind: 1, O: o, Amt: e.I[1]})
			del[o] += e.I[1]
		case 6:
			out.Events = append(out.Events, c08Ev{Kind: 2})
		case 7:
			out.Events = append(out.Events, c08Ev{Kind: 3})
		default:
			continue
		}
		evAt = append(evAt, li)
	}
	out.Applied = applied
	out.Delivered = del
	// direct predicate
	winners := 0
	for ti, r := range res {
		if !r.returned {
			continue
		}
		isWinner := false
		// the caller that performed the shutdown is the one whose return value may be the closer's error,
		// or, without closer, the one after whose return the log contains its final flush: identify it
		// as the first Close that was called (CAS order) - with the yield after the CAS this is the
		// thread that reached label 66.
		for k, pk := range out.Sched {
			if pk.I == ti && out.Labels[k] == 66 {
				isWinner = true
			}
		}
		if !isWinner {
			if r.err != nil {
				out.Fail = fmt.Sprintf("a Close call that did not perform the shutdown returned %v, expected nil", r.err)
			}
			continue
		}
		winners++
		if c.Closer && r.err != errCloser {
			out.Fail = fmt.Sprintf("Close returned %v, expected the reporter's Close error", r.err)
		}
		if !c.Closer && r.err != nil {
			out.Fail = fmt.Sprintf("Close returned %v, expected nil", r.err)
		}
		// delivered up to the log length at return
		got := make([]int64, c.NObj)
		lastFlush, closerAt, nClosers, lastDeliver := -1, -1, 0, -1
		for k, e := range out.Events {
			if evAt[k] >= r.logLen {
				out.Fail = "the reporter was called after Close had returned (a report pass or flush was still running or started later)"
				break
			}
			switch e.Kind {
			case 1:
				got[e.O] += e.Amt
				lastDeliver = k
			case 2:
				lastFlush = k
			case 3:
				closerAt = k
				nClosers++
			}
		}
		for o := range got {
			if out.Fail == "" && got[o] < r.snapshot[o] {
				out.Fail = fmt.Sprintf("object %d: %d recorded before Close was called, %d delivered when Close returned", o, r.snapshot[o], got[o])
			}
		}
		if out.Fail == "" && lastFlush < lastDeliver {
			out.Fail = "the last delivery before Close returned is not followed by a Flush"
		}
		if out.Fail == "" && c.Closer && (nClosers != 1 || closerAt < lastFlush) {
			out.Fail = fmt.Sprintf("reporter closed %d times; it must be closed exactly once, after the final flush", nClosers)
		}
		if out.Fail == "" && !r.loopsDone {
			out.Fail = "the reporting goroutine had not ended when Close returned"
		}
	}
	if out.Fail == "" && winners > 1 {
		out.Fail = "two Close calls performed the shutdown"
	}
	return
}

func c08Term(idx int, c *c08Case, out *c08Out) string {
	par := []int64{b2i(c.Cached), b2i(c.Closer), int64(c.NObj)}
	var in []Ev
	for _, th := range c.Threads {
		switch th.Kind {
		case "loop":
			in = append(in, Ev{K: 40, I: []int64{1}})
		case "close":
			in = append(in, Ev{K: 40, I: []int64{2}})
		case "app":
			in = append(in, Ev{K: 40, I: []int64{3, int64(th.O), int64(th.N)}})
		}
	}
	var s []int64
	for _, pk := range out.Sched {
		s = append(s, int64(pk.I), b2i(pk.Tick), int64(len(pk.Order)))
		for _, o := range pk.Order {
			s = append(s, int64(o))
		}
	}
	in = append(in, Ev{K: 42, I: s})
	var evs, objs []int64
	for _, e := range out.Events {
		evs = append(evs, int64(e.Kind), int64(e.O), e.Amt)
	}
	for o := range out.Applied {
		objs = append(objs, out.Applied[o], out.Delivered[o])
	}
	return gcase(idx, par, in, []Ev{{K: 43, I: out.Labels}, {K: 47, I: evs}, {K: 46, I: objs}})
}

func c08Gen(r *Rng) c08Case {
	c := c08Case{Cached: r.Bool(), Closer: r.Chance(60), NObj: r.Range(1, 4)}
	if r.Chance(85) {
		c.Threads = append(c.Threads, c08Thread{Kind: "loop"})
	}
	for i, n := 0, r.Range(1, 2); i < n; i++ {
		c.Threads = append(c.Threads, c08Thread{Kind: "close"})
	}
	for i, n := 0, r.Range(0, 2); i < n; i++ {
		c.Threads = append(c.Threads, c08Thread{Kind: "app", O: r.Intn(c.NObj), N: r.Range(1, 4)})
	}
	// shuffle thread order
	for i := range c.Threads {
		j := i + r.Intn(len(c.Threads)-i)
		c.Threads[i], c.Threads[j] = c.Threads[j], c.Threads[i]
	}
	nt := len(c.Threads)
	// bias: let loop and app threads run for a while before the closers start
	warm := r.Range(0, 25)
	for j := 0; j < 70; j++ {
		i := r.Intn(nt)
		if j < warm && c.Threads[i].Kind == "close" {
			continue
		}
		c.Sched = append(c.Sched, c08Pick{I: i, Tick: r.Chance(80)})
	}
	return c
}

// c08Real: real ticker, slow reporter, concurrent recording, Close.
// hold: the real report loop is held between its check of the closed flag and its pass (yield 62)
// until the Close caller has returned or is seen waiting for the loop goroutine (runtime status:
// sync.WaitGroup.Wait) - the schedule "Close arrives exactly then", made deterministic.
func c08Real(seed uint64, interval time.Duration, hold bool) string {
	log := &Log{}
	rep := &RecCloser{RecReporter: RecReporter{L: log, Caps: caps{true, true}}}
	rep.OnCall = func(k int) { time.Sleep(150 * time.Microsecond) }
	var at62 = make(chan struct{})
	var held, closeReturned int32
	var closerGid uint64
	if hold {
		tally.VerifSetYield(func(p int) {
			if p != 62 || !atomic.CompareAndSwapInt32(&held, 0, 1) {
				return
			}
			close(at62)
			for atomic.LoadInt32(&closeReturned) == 0 {
				if g := atomic.LoadUint64(&closerGid); g != 0 && strings.Contains(goroutineStack(g), "sync.(*WaitGroup).Wait") {
					break
				}
				time.Sleep(100 * time.Microsecond)
			}
		})
		defer setYield(nil)
	}
	root, closer := tally.NewRootScope(tally.ScopeOptions{Reporter: rep, OmitCardinalityMetrics: true}, interval)
	const nobj = 4
	ctrs := make([]tally.Counter, nobj)
	for i := range ctrs {
		ctrs[i] = root.Tagged(map[string]string{"k": fmt.Sprint(i)}).Counter(fmt.Sprintf("c%d", i))
	}
	var applied [nobj]int64
	var wg sync.WaitGroup
	var mu sync.Mutex
	stop := make(chan struct{})
	for g := 0; g < nobj; g++ {
		g := g
		wg.Add(1)
		go func() {
			defer wg.Done()
			for {
				select {
				case <-stop:
					return
				default:
				}
				mu.Lock()
				ctrs[g].Inc(1)
				applied[g]++
				mu.Unlock()
				runtime.Gosched()
			}
		}()
	}
	time.Sleep(time.Duration(300+seed%700) * time.Microsecond)
	mu.Lock() // no increment is in flight while Close is called
	snap := applied
	mu.Unlock()
	close(stop)
	wg.Wait()
	snap = applied
	if hold {
		<-at62 // the loop goroutine has passed its check of the closed flag and is about to run a pass
		cd := make(chan struct{})
		go func() {
			atomic.StoreUint64(&closerGid, gid())
			closer.Close()
			close(cd)
		}()
		<-cd
	} else {
		closer.Close()
	}
	n1 := log.Len()
	atomic.StoreInt32(&closeReturned, 1)
	if st := strings.Join(allStacksSplit(), "\n\n"); strings.Contains(st, "tally/v4.(*scope).reportLoop") {
		return "real ticker: the reportLoop goroutine has not ended when Close returns"
	}
	var got [nobj]int64
	sawFlushAfter := false
	evs := log.Snapshot()
	lastDeliver := -1
	for k, e := range evs {
		if e.K == 1 {
			var o int
			fmt.Sscanf(e.S[0], "c%d", &o)
			got[o] += e.I[0]
			lastDeliver = k
		}
	}
	for k, e := range evs {
		if e.K == 6 && k > lastDeliver {
			sawFlushAfter = true
		}
	}
	for o := range got {
		if got[o] != snap[o] {
			return fmt.Sprintf("real ticker: object %d: %d recorded before Close, %d delivered when Close returned", o, snap[o], got[o])
		}
	}
	if !sawFlushAfter {
		return "real ticker: no Flush after the last delivery when Close returned"
	}
	time.Sleep(3 * time.Millisecond)
	if hold {
		time.Sleep(5 * time.Millisecond)
	}
	if n2 := log.Len(); n2 != n1 {
		return fmt.Sprintf("real ticker: %d reporter calls after Close had returned", n2-n1)
	}
	buf := make([]byte, 1<<16)
	if st := string(buf[:runtime.Stack(buf, true)]); strings.Contains(st, "tally/v4.(*scope).reportLoop") {
		return "real ticker: the reportLoop goroutine is still running after Close returned"
	}
	if err := closer.Close(); err != nil {
		return fmt.Sprintf("real ticker: second Close returned %v", err)
	}
	if log.Len() != n1 {
		return "real ticker: second Close delivered something"
	}
	return ""
}

func init() {
	props["C08"] = func(ctx *Ctx) {
		ctx.Header("RootCloseCorr")
		ctx.Res.Rule = "case = (registered scopes, threads: harness-driven report loop / Close callers / recording goroutines, reporter flavour with or without io.Closer, schedule over the yield points of reportLoopRun, the report pass and Close); every run is completed to the end; plus uncontrolled runs with the real ticker and a slow reporter; non-trivial = Close was called while a periodic pass was part-way or between the loop's check and its pass, or two Close calls overlapped; distinct by (case, executed schedule)"
		nsched := 0
		one := func(c *c08Case) {
			out := c08Exec(c)
			key := ""
			closeAt, inter := -1, false
			for k, pk := range out.Sched {
				if c.Threads[pk.I].Kind == "close" && closeAt < 0 {
					closeAt = k
				}
			}
			if closeAt > 0 {
				// some loop thread was inside a pass (31, 61, 62) when the first Close step ran
				lastL := map[int]int64{}
				for k := 0; k < closeAt; k++ {
					lastL[out.Sched[k].I] = out.Labels[k]
				}
				for i, l := range lastL {
					if c.Threads[i].Kind == "loop" && (l == 31 || l == 61 || l == 62) {
						inter = true
					}
				}
			}
			ncl := 0
			for _, th := range c.Threads {
				if th.Kind == "close" {
					ncl++
				}
			}
			if inter || ncl > 1 {
				key = hashOf([]interface{}{c.Threads, c.NObj, c.Cached, c.Closer, out.Sched})
			}
			cc := *c
			cc.Sched = out.Sched
			idx := ctx.Res.Evaluations
			term := ""
			if !out.Incomplete {
				term = c08Term(idx, c, &out)
			}
			ctx.Case(cc, term, fmt.Sprintf("objs=%d/threads=%d/closer=%v", c.NObj, len(c.Threads), c.Closer), key)
			nsched++
			if out.Fail != "" {
				ctx.Fail("close_is_a_complete_idempotent_barrier", out.Fail, cc, out)
			}
		}
		if ctx.Replay != nil {
			var c c08Case
			if err := json.Unmarshal(ctx.Replay, &c); err != nil {
				fatal(err)
			}
			if len(c.Threads) == 0 {
				// a real-ticker replay: {"nobj":0,...}
				f := c08Real(1, 300*time.Microsecond, false)
				for k := 0; k < 20 && f == ""; k++ {
					f = c08Real(uint64(k), 300*time.Microsecond, true)
				}
				if f == "" {
					f = c08After(true, true, true)
				}
				if f == "" {
					f = c08AfterTestRoot()
				}
				for k := 0; k < 2 && f == ""; k++ {
					f = c08Null(k == 1)
				}
				for k := 0; k < 8 && f == ""; k++ {
					f = c08CloseErr(k%2 == 1, k/2)
				}
				for k := 0; k < 8 && f == ""; k++ {
					f = c08InFlight(k&1 == 1, k&2 == 2, k>>2)
				}
				for k := 0; k < 2 && f == ""; k++ {
					f = c08SlowFinal(k == 1, k == 0)
				}
				if f != "" {
					ctx.Case(c, "", "real-ticker", "")
					ctx.Fail("close_is_a_complete_idempotent_barrier", f, c, nil)
				}
				return
			}
			one(&c)
			return
		}
		for _, raw := range ctx.CorpusCases() {
			var c c08Case
			if json.Unmarshal(raw, &c) == nil && len(c.Threads) > 0 {
				one(&c)
			}
		}
		n := ctx.N(500, 10000)
		for k := 0; k < n; k++ {
			c := c08Gen(ctx.R)
			one(&c)
		}
		ctx.Res.Schedules = nsched
		// uncontrolled: real ticker
		nreal := ctx.N(40, 1500)
		fails := 0
		for k := 0; k < nreal; k++ {
			f := c08Real(ctx.R.U64(), time.Duration(200+ctx.R.Intn(400))*time.Microsecond, k%2 == 1)
			ctx.Res.Histogram["real-ticker-shutdowns"]++
			ctx.Res.Evaluations++
			if f != "" {
				fails++
				if fails == 1 {
					ctx.Fail("close_is_a_complete_idempotent_barrier", f, c08Case{}, nil)
				}
			}
		}
		ctx.Res.Extra["real_ticker_failures"] = fails
		{
			cs := map[string]interface{}{"after_close": true, "test_root": true}
			ctx.Case(cs, "", "after-close", "")
			if f := c08AfterTestRoot(); f != "" {
				ctx.Fail("after_close_everything_is_inert", f, cs, nil)
			}
		}
		for k := 0; k < 2; k++ {
			cs := map[string]interface{}{"after_close": true, "null_reporter": true, "interval": k == 1}
			ctx.Case(cs, "", "after-close", "")
			if f := c08Null(k == 1); f != "" {
				ctx.Fail("after_close_everything_is_inert", f, cs, nil)
			}
		}
		for k := 0; k < 8; k++ {
			cs := map[string]interface{}{"reporter_close_error": true, "cached": k%2 == 1, "error_kind": k / 2}
			ctx.Case(cs, "", "reporter-close-error-is-returned", "")
			if f := c08CloseErr(k%2 == 1, k/2); f != "" {
				ctx.Fail("close_is_a_complete_idempotent_barrier", f, cs, nil)
			}
		}
		// Close called while a periodic pass is stalled inside one scope's delivery, with recording in between
		for k := 0; k < 8; k++ {
			cs := map[string]interface{}{"close_during_stalled_delivery": true, "cached": k&1 == 1, "closer": k&2 == 2, "stalled_scope": k >> 2}
			f := c08InFlight(k&1 == 1, k&2 == 2, k>>2)
			ctx.Case(cs, "", "close-during-stalled-delivery", "")
			if f != "" {
				ctx.Fail("close_is_a_complete_idempotent_barrier", f, cs, nil)
				break
			}
		}
		// Close's own final pass is slow (one reporter call takes 700 ms)
		for k := 0; k < 2; k++ {
			cs := map[string]interface{}{"slow_final_pass": true, "cached": k == 1, "interval_1h": k == 0}
			f := c08SlowFinal(k == 1, k == 0)
			ctx.Case(cs, "", "slow-final-pass", "")
			if f != "" {
				ctx.Fail("close_is_a_complete_idempotent_barrier", f, cs, nil)
			}
		}
		// several goroutines call the root's Close at the same moment (uncontrolled: the test-and-set in
		// Close has no yield point inside): no panic, one of them performs the shutdown, the others return
		// nil, the reporter is closed once, everything recorded is delivered
		for k := 0; k < 2; k++ {
			cs := map[string]interface{}{"concurrent_root_close": true, "cached": k == 1, "goroutines": 4, "rounds": 400}
			f := c08CloseStorm(400, 4, k == 1)
			ctx.Case(cs, "", "concurrent-root-close", "")
			if f != "" {
				ctx.Fail("close_is_a_complete_idempotent_barrier", f, cs, nil)
			}
		}
		// after Close has returned: further Close calls, scopes obtained afterwards (every derivation,
		// including the ones that lead back to the root's own identity), recording on old handles
		for k := 0; k < 8; k++ {
			cs := map[string]interface{}{"after_close": true, "cached": k&1 == 1, "closer": k&2 == 2, "interval": k&4 == 4}
			f := c08After(k&1 == 1, k&2 == 2, k&4 == 4)
			ctx.Case(cs, "", "after-close", "")
			if f != "" {
				ctx.Fail("after_close_everything_is_inert", f, cs, nil)
			}
		}
	}
}

func c08CloseStorm(rounds, G int, cached bool) string {
	for r := 0; r < rounds; r++ {
		log := &Log{}
		var opts tally.ScopeOptions
		if cached {
			opts = tally.ScopeOptions{OmitCardinalityMetrics: true, CachedReporter: &RecCachedCloser{RecCached: RecCached{L: log, Caps: caps{true, true}}}}
		} else {
			opts = tally.ScopeOptions{OmitCardinalityMetrics: true, Reporter: &RecCloser{RecReporter: RecReporter{L: log, Caps: caps{true, true}}}}
		}
		var interval time.Duration
		if r%2 == 1 {
			interval = 200 * time.Microsecond
		}
		root, closer := tally.NewRootScope(opts, interval)
		root.Counter("c").Inc(5)
		root.Tagged(map[string]string{"k": "v"}).Counter("d").Inc(7)
		var arrived int32
		var wg sync.WaitGroup
		var mu sync.Mutex
		panicked := ""
		var errs []error
		for g := 0; g < G; g++ {
			wg.Add(1)
			go func() {
				defer wg.Done()
				defer func() {
					if p := recover(); p != nil {
						mu.Lock()
						panicked = fmt.Sprint(p)
						mu.Unlock()
					}
				}()
				atomic.AddInt32(&arrived, 1)
				for atomic.LoadInt32(&arrived) < int32(G) {
				}
				err := closer.Close()
				mu.Lock()
				errs = append(errs, err)
				mu.Unlock()
			}()
		}
		wg.Wait()
		if panicked != "" {
			return fmt.Sprintf("round %d: %d goroutines called Close on the same root at the same moment: panic: %s", r, G, panicked)
		}
		var sum int64
		closes := 0
		for _, e := range log.Snapshot() {
			switch e.K {
			case 1:
				sum += e.I[0]
			case 21:
				sum += e.I[1]
			case 7:
				closes++
			}
		}
		if sum != 12 {
			return fmt.Sprintf("round %d: %d concurrent Close calls: 12 recorded before, %d delivered when all had returned", r, G, sum)
		}
		if closes != 1 {
			return fmt.Sprintf("round %d: %d concurrent Close calls: the reporter was closed %d times", r, G, closes)
		}
	}
	return ""
}

// c08After: a root with some scopes and metrics is closed; afterwards scopes are obtained by every kind
// of derivation and used, old handles are used, Close is called again: nothing may panic and the
// reporter must not be called any more (timers recorded on OLD handles excepted: they are forwarded
// directly and only have to be harmless).
func c08After(cached, closerFlavour, withInterval bool) (fail string) {
	log := &Log{}
	opts := tally.ScopeOptions{OmitCardinalityMetrics: true, Tags: map[string]string{"env": "t"}, Prefix: "p"}
	switch {
	case cached && closerFlavour:
		opts.CachedReporter = &RecCachedCloser{RecCached: RecCached{L: log, Caps: caps{true, true}}}
	case cached:
		opts.CachedReporter = &RecCached{L: log, Caps: caps{true, true}}
	case closerFlavour:
		opts.Reporter = &RecCloser{RecReporter: RecReporter{L: log, Caps: caps{true, true}}}
	default:
		opts.Reporter = &RecReporter{L: log, Caps: caps{true, true}}
	}
	var interval time.Duration
	if withInterval {
		interval = 300 * time.Microsecond
	}
	root, closer := tally.NewRootScope(opts, interval)
	defer func() {
		if p := recover(); p != nil {
			fail = fmt.Sprintf("panic after Close: %v", p)
		}
	}()
	oldSub := root.SubScope("old")
	oldTag := root.Tagged(map[string]string{"k": "v"})
	oc, og, oh := oldSub.Counter("c"), oldTag.Gauge("g"), root.Histogram("h", tally.ValueBuckets{1, 2})
	ot := oldSub.Timer("t")
	oc.Inc(1)
	og.Update(2)
	oh.RecordValue(1.5)
	if err := closer.Close(); err != nil {
		return fmt.Sprintf("Close returned %v", err)
	}
	n1 := log.Len()
	use := func(what string, s tally.Scope) string {
		s.Counter("c2").Inc(1)
		s.Gauge("g2").Update(1)
		s.Timer("t2").Record(time.Millisecond)
		s.Timer("t3").Start().Stop()
		s.Histogram("h2", tally.DurationBuckets{time.Second}).RecordDuration(time.Millisecond)
		s.Histogram("h3", nil).RecordValue(3)
		if n := log.Len(); n != n1 {
			ev := log.Snapshot()[n1]
			return fmt.Sprintf("a scope obtained after Close by %s is not inert: using it called the reporter (%v)", what, ev)
		}
		return ""
	}
	derivs := []struct {
		what string
		f    func() tally.Scope
	}{
		{"root.Tagged(nil)", func() tally.Scope { return root.Tagged(nil) }},
		{"root.Tagged(map[string]string{})", func() tally.Scope { return root.Tagged(map[string]string{}) }},
		{"root.Tagged(the root's own tags)", func() tally.Scope { return root.Tagged(map[string]string{"env": "t"}) }},
		{"root.Tagged({a:b})", func() tally.Scope { return root.Tagged(map[string]string{"a": "b"}) }},
		{"root.Tagged({k:v}) (an identity that existed before)", func() tally.Scope { return root.Tagged(map[string]string{"k": "v"}) }},
		{`root.SubScope("")`, func() tally.Scope { return root.SubScope("") }},
		{`root.SubScope("new")`, func() tally.Scope { return root.SubScope("new") }},
		{`root.SubScope("old") (an identity that existed before)`, func() tally.Scope { return root.SubScope("old") }},
		{"oldSub.Tagged(nil)", func() tally.Scope { return oldSub.Tagged(nil) }},
		{`oldSub.SubScope("x")`, func() tally.Scope { return oldSub.SubScope("x") }},
		{"oldTag.Tagged({k:v})", func() tally.Scope { return oldTag.Tagged(map[string]string{"k": "v"}) }},
		{`root.SubScope("a").Tagged(nil).SubScope("")`, func() tally.Scope { return root.SubScope("a").Tagged(nil).SubScope("") }},
	}
	for _, d := range derivs {
		if f := use(d.what, d.f()); f != "" {
			return f
		}
	}
	// old handles: harmless
	oc.Inc(5)
	og.Update(9)
	oh.RecordValue(0.5)
	if err := closer.Close(); err != nil {
		return fmt.Sprintf("a further Close returned %v, expected nil", err)
	}
	if cl, ok := root.(interface{ Close() error }); ok {
		if err := cl.Close(); err != nil {
			return fmt.Sprintf("a further Close returned %v, expected nil", err)
		}
	}
	if withInterval {
		time.Sleep(2 * time.Millisecond)
	}
	if n := log.Len(); n != n1 {
		return fmt.Sprintf("after Close had returned the reporter was called again (%v) although only old handles were used and Close was repeated", log.Snapshot()[n1])
	}
	ot.Record(time.Millisecond) // forwarded directly; must not panic
	// old SCOPE handles (the root, scopes obtained before Close): asking them for metrics, known names
	// and new ones, and recording must be harmless (no panic; what the reporter sees is not judged)
	for _, sc := range []tally.Scope{root, oldSub, oldTag} {
		sc.Counter("c").Inc(1)
		sc.Counter("c_new").Inc(1)
		sc.Gauge("g").Update(1)
		sc.Gauge("g_new").Update(1)
		sc.Timer("t").Record(time.Millisecond)
		sc.Timer("t_new").Record(time.Millisecond)
		sc.Timer("t_new2").Start().Stop()
		sc.Histogram("h", tally.ValueBuckets{1, 2}).RecordValue(1)
		sc.Histogram("h_new", tally.DurationBuckets{time.Second}).RecordDuration(time.Millisecond)
		sc.Capabilities()
		if ts, ok := sc.(tally.TestScope); ok {
			ts.Snapshot()
		}
	}
	return ""
}
