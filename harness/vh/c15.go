package main

// C15 — UDP transport: one flush = one exact datagram; a failed message never
// poisons.  Drives the real thriftudp.TUDPTransport / TMultiUDPTransport
// against loopback UDP listeners opened here, and the real M3 reporter against
// the same kind of listener.

import (
	"bytes"
	"encoding/json"
	"fmt"
	"net"
	"os"
	"reflect"
	"runtime"
	"strings"
	"sync"
	"sync/atomic"
	"syscall"
	"time"
	"unsafe"

	"github.com/uber-go/tally/v4/m3"
	customtransport "github.com/uber-go/tally/v4/m3/customtransports"
	m3thrift "github.com/uber-go/tally/v4/m3/thrift/v2"
	"github.com/uber-go/tally/v4/m3/thriftudp"
	"github.com/uber-go/tally/v4/thirdparty/github.com/apache/thrift/lib/go/thrift"
)

type c15Op struct {
	Op string `json:"op"` // w | wb | ws | flush | close | isopen | rem | read | kill | down | up | age
	N  int    `json:"n,omitempty"`
	// kill: which destination's client socket is closed behind the transport's back;
	// down / up: which destination stops listening (its port becomes unreachable:
	// a later send may be refused with ECONNREFUSED) / listens again on the same port
	D int `json:"d,omitempty"`
	// age (N = milliseconds): the caller does nothing until the transport is at
	// least that old; an input (how long a transport stays in use), not a verdict
}

type c15Case struct {
	Kind    string  `json:"kind"` // transport | reporter | closerace
	Witness string  `json:"witness,omitempty"`
	Multi   bool    `json:"multi,omitempty"`
	Dests   int     `json:"dests"`
	Ops     []c15Op `json:"ops,omitempty"`
	// reporter scenario: one metric too large for a datagram (name length,
	// then tag value lengths), then Later rounds of a normal metric + Flush
	Proto string `json:"proto,omitempty"`
	Big   []int  `json:"big,omitempty"`
	Later int    `json:"later,omitempty"`
	AgeMs int    `json:"age_ms,omitempty"` // the reporter is this old before its last round
	// closerace: Closers goroutines call Close on one fresh transport at the
	// same moment (spin barrier), Rounds times
	Closers int `json:"closers,omitempty"`
	Rounds  int `json:"rounds,omitempty"`
}

const c15Max = thriftudp.MaxLength

// byte j of write k (k = index of the op in the case)
func c15Payload(k, n int) []byte {
	b := make([]byte, n)
	cur := (k*37 + 11) % 251
	for j := range b {
		b[j] = byte(cur)
		cur++
		if cur == 251 {
			cur = 0
		}
	}
	return b
}

func c15Fletcher(d []byte) (int64, int64) {
	var a, c int64
	for _, b := range d {
		a += int64(b)
		c += a
	}
	return a, c
}

func c15Listen() *net.UDPConn {
	l, err := net.ListenUDP("udp", &net.UDPAddr{IP: net.IPv4(127, 0, 0, 1)})
	if err != nil {
		fatal(err)
	}
	l.SetReadBuffer(8 << 20)
	return l
}

// one non-blocking receive
func c15Poll(l *net.UDPConn, buf []byte) (int, bool) {
	rc, err := l.SyscallConn()
	if err != nil {
		return 0, false
	}
	n := -1
	rc.Read(func(fd uintptr) bool {
		m, _, e := syscall.Recvfrom(int(fd), buf, syscall.MSG_DONTWAIT)
		if e == nil {
			n = m
		}
		return true
	})
	return n, n >= 0
}

// everything queued on the listener; waits (with a deadline) while fewer than
// want datagrams have arrived
func c15Recv(l *net.UDPConn, want int, buf []byte) [][]byte {
	var out [][]byte
	for {
		if n, ok := c15Poll(l, buf); ok {
			out = append(out, append([]byte(nil), buf[:n]...))
			continue
		}
		if len(out) >= want {
			return out
		}
		l.SetReadDeadline(time.Now().Add(300 * time.Millisecond))
		n, _, err := l.ReadFromUDP(buf)
		if err != nil {
			return out
		}
		out = append(out, append([]byte(nil), buf[:n]...))
	}
}

// the transports behind a multi transport (unexported field)
func c15Kids(mt *thriftudp.TMultiUDPTransport) []thrift.TTransport {
	f := reflect.ValueOf(mt).Elem().FieldByName("transports")
	return reflect.NewAt(f.Type(), unsafe.Pointer(f.UnsafeAddr())).Elem().Interface().([]thrift.TTransport)
}

// 0 ok, 1 not open, 2 refused, 3 socket error, 5 not supported
func c15Code(err error) int64 {
	if err == nil {
		return 0
	}
	msg := err.Error()
	if msg == "Connection not open" {
		return 1
	}
	if msg == "not supported" {
		return 5
	}
	if _, ok := err.(thrift.TTransportException); ok && strings.Contains(msg, "UDP packet") {
		return 2
	}
	return 3
}

type c15Run struct {
	In, Obs     []Ev
	Pred        string
	Fail        string
	Delivered   int
	Refused     int
	SendFail    int
	AgedMs      int  // the transport was kept in use until it was this old
	DestDown    int  // destinations taken down (port unreachable) during the case
	SendRefused int  // sends the kernel refused on a destination that had been down
	Skip        bool // the listener could not be re-opened on its port: inconclusive
	AfterClose  int
}

func (r *c15Run) fail(pred, f string, a ...interface{}) {
	if r.Fail == "" {
		r.Pred, r.Fail = pred, fmt.Sprintf(f, a...)
	}
}

func c15RunTransport(c *c15Case) (res c15Run) {
	n := c.Dests
	if !c.Multi {
		n = 1
	}
	ls := make([]*net.UDPConn, n)
	hp := make([]string, n)
	for i := range ls {
		ls[i] = c15Listen()
		hp[i] = ls[i].LocalAddr().String()
		defer func(i int) { ls[i].Close() }(i)
	}
	var single *thriftudp.TUDPTransport
	var multi *thriftudp.TMultiUDPTransport
	var kids []*thriftudp.TUDPTransport
	var err error
	created := time.Now()
	if c.Multi {
		multi, err = thriftudp.NewTMultiUDPClientTransport(hp, "")
		if err != nil {
			fatal(err)
		}
		for _, k := range c15Kids(multi) {
			kids = append(kids, k.(*thriftudp.TUDPTransport))
		}
		defer multi.Close()
	} else {
		single, err = thriftudp.NewTUDPClientTransport(hp[0], "")
		if err != nil {
			fatal(err)
		}
		kids = []*thriftudp.TUDPTransport{single}
		defer single.Close()
	}
	// reference state of the direct predicate, per destination
	acc := make([][]byte, n)
	refused := make([]bool, n)
	killed := make([]bool, n)
	down := make([]bool, n)  // the destination is not listening right now
	flaky := make([]bool, n) // the destination has been down: whether a send is refused is the kernel's choice
	anyKilled, flakyDest := false, -1
	closed, undef := false, false
	buf := make([]byte, 70000)
	// The caller owns what it hands to Write (io.Writer: "Write must not modify
	// the slice data ... Implementations must not retain p"): every chunk is
	// written from ONE re-used backing array with spare capacity, and the whole
	// array is overwritten as soon as the call has returned.
	arena := make([]byte, 2*c15Max+8192)
	lend := func(payload []byte) []byte {
		return arena[:copy(arena, payload)]
	}
	scribble := func() {
		for i := range arena {
			arena[i] = 0xA5
		}
	}

	for idx, o := range c.Ops {
		switch o.Op {
		case "age":
			for time.Since(created) < time.Duration(o.N)*time.Millisecond {
				time.Sleep(10 * time.Millisecond)
			}
			res.AgedMs = o.N
			continue
		case "kill":
			// (one fault kind per case: the multi transport returns only the first error)
			if o.D < n && flakyDest < 0 {
				kids[o.D].Conn().Close()
				killed[o.D] = true
				anyKilled = true
			}
			continue
		case "down":
			if o.D < n && !anyKilled && !down[o.D] && (flakyDest < 0 || flakyDest == o.D) {
				ls[o.D].Close()
				down[o.D], flaky[o.D], flakyDest = true, true, o.D
				res.DestDown++
			}
			continue
		case "up":
			if o.D < n && down[o.D] {
				addr, _ := net.ResolveUDPAddr("udp", hp[o.D])
				var l *net.UDPConn
				var e error
				for try := 0; try < 100; try++ {
					if l, e = net.ListenUDP("udp", addr); e == nil {
						break
					}
					time.Sleep(2 * time.Millisecond)
				}
				if e != nil {
					res.Skip = true // somebody else took the port: the case cannot be continued
					return
				}
				l.SetReadBuffer(8 << 20)
				ls[o.D], down[o.D] = l, false
			}
			continue
		}
		var in Ev
		var code, aux int64
		var unsignedAux bool
		panicked := ""
		call := func(f func()) {
			defer func() {
				if p := recover(); p != nil {
					panicked = fmt.Sprint(p)
					code = 99
				}
			}()
			f()
		}
		// the socket oracle handed to the model, per destination: 0 the call on
		// the socket fails, 1 it succeeds, 2 (Flush) it succeeds but nobody
		// listens: the datagram is lost.  For a destination that has been down
		// the kernel decides whether a send is refused (ECONNREFUSED answers an
		// earlier datagram): the oracle is read off the result of the call.
		oracle := func(k int, sockErr bool) Ev {
			e := Ev{K: k}
			for d := 0; d < n; d++ {
				v := b2i(!killed[d])
				if k == 4 && flaky[d] {
					switch {
					case sockErr:
						v = 0
					case down[d]:
						v = 2
					}
				}
				e.I = append(e.I, v)
			}
			return e
		}
		var payload []byte
		switch o.Op {
		case "w", "ws":
			payload = c15Payload(idx, o.N)
			k := 1
			if o.Op == "ws" && !c.Multi {
				k = 3
			}
			in = Ev{K: k, I: []int64{int64(idx), int64(o.N)}}
			call(func() {
				var w int
				var e error
				switch {
				case c.Multi:
					w, e = multi.Write(lend(payload))
				case o.Op == "ws":
					w, e = single.WriteString(string(payload))
				default:
					w, e = single.Write(lend(payload))
				}
				code, aux = c15Code(e), int64(w)
			})
			scribble()
		case "wb":
			payload = c15Payload(idx, 1)
			if c.Multi { // the multi transport has no WriteByte: the protocol layer writes one byte
				in = Ev{K: 1, I: []int64{int64(idx), 1}}
				call(func() { w, e := multi.Write(lend(payload)); code, aux = c15Code(e), int64(w) })
				scribble()
			} else {
				in = Ev{K: 2, I: []int64{int64(idx)}}
				call(func() { code = c15Code(single.WriteByte(payload[0])) })
			}
		case "flush":
			call(func() {
				if c.Multi {
					code = c15Code(multi.Flush())
				} else {
					code = c15Code(single.Flush())
				}
			})
			in = oracle(4, code == 3)
			if flakyDest >= 0 && code == 3 {
				res.SendRefused++
			}
			if flakyDest >= 0 && down[flakyDest] {
				time.Sleep(200 * time.Microsecond) // let the port-unreachable answer arrive (no verdict depends on it)
			}
		case "close":
			in = oracle(5, false)
			call(func() {
				if c.Multi {
					code = c15Code(multi.Close())
				} else {
					code = c15Code(single.Close())
				}
			})
		case "isopen":
			in = Ev{K: 6}
			call(func() {
				code = 6
				if c.Multi {
					aux = b2i(multi.IsOpen())
				} else {
					aux = b2i(single.IsOpen())
				}
			})
		case "rem":
			in = Ev{K: 7}
			call(func() {
				code = 7
				if c.Multi {
					aux = int64(multi.RemainingBytes())
				} else {
					aux = int64(single.RemainingBytes())
				}
				unsignedAux = true
			})
		case "read":
			in = Ev{K: 8}
			if !c.Multi && !closed {
				continue // Read on an open client transport blocks on the socket: not issued
			}
			call(func() {
				var e error
				if c.Multi {
					_, e = multi.Read(make([]byte, 8))
				} else {
					_, e = single.Read(make([]byte, 8))
				}
				code = c15Code(e)
			})
		default:
			continue
		}
		res.In = append(res.In, in)
		oe := Ev{K: 20, I: []int64{code, aux}}
		if unsignedAux {
			oe.F = 2
		}
		if code != 0 && code != 6 && code != 7 {
			oe.I[1] = 0
		}
		res.Obs = append(res.Obs, oe)
		if panicked != "" {
			res.fail("never_panics", "op %d (%s) panicked: %s", idx, o.Op, panicked)
		}

		// what the property lets each destination receive during this call
		want := make([]int, n)
		check := !undef && !closed
		isWrite := o.Op == "w" || o.Op == "ws" || o.Op == "wb"
		if check && isWrite {
			over := false
			for d := 0; d < n; d++ {
				if len(acc[d])+len(payload) > c15Max {
					over = true
				}
			}
			if over && code == 0 {
				res.fail("oversize_refused", "op %d: a write of %d bytes onto %d buffered bytes exceeds MaxLength %d but was accepted", idx, len(payload), len(acc[0]), c15Max)
			}
			// ... and only such a write: a message of at most MaxLength bytes is
			// "the bytes written since the previous Flush" and must go out complete,
			// so none of its writes may be refused
			clean := n > 0
			for d := 0; d < n; d++ {
				clean = clean && !refused[d]
			}
			if !over && clean && code != 0 {
				call := map[string]string{"w": "Write", "ws": "WriteString", "wb": "WriteByte"}[o.Op]
				if c.Multi {
					call = "Write"
				}
				res.fail("fitting_write_accepted", "op %d: %s of %d byte(s) after %d accepted byte(s) was refused (code %d) although the message then has %d bytes <= MaxLength %d and no earlier write of this message had been refused", idx, call, len(payload), len(acc[0]), code, len(acc[0])+len(payload), c15Max)
			}
			if code == 0 {
				for d := range acc {
					acc[d] = append(acc[d], payload...)
				}
			} else {
				res.Refused++
				for d := range refused {
					refused[d] = true
				}
			}
		}
		if check && o.Op == "flush" {
			for d := 0; d < n; d++ {
				sendFails := killed[d] || (flaky[d] && code == 3)
				if !refused[d] && !sendFails && !down[d] {
					want[d] = 1
				}
				if sendFails {
					res.SendFail++
				}
			}
		}
		if closed && !undef {
			res.AfterClose++
			switch o.Op {
			case "w", "ws", "wb", "flush":
				if code != 1 {
					res.fail("use_after_close_not_open", "op %d (%s) after Close returned code %d, expected the not-open error", idx, o.Op, code)
				}
			case "read":
				if !c.Multi && code != 1 {
					res.fail("use_after_close_not_open", "op %d (read) after Close returned code %d, expected the not-open error", idx, code)
				}
			case "close":
				if code != 0 {
					res.fail("close_idempotent", "op %d: Close after Close returned an error", idx)
				}
			case "isopen":
				if aux != 0 {
					res.fail("use_after_close_not_open", "op %d: IsOpen after Close is true", idx)
				}
			}
		}
		for d := 0; d < n; d++ {
			if down[d] {
				continue // nobody listens: nothing can be received
			}
			got := c15Recv(ls[d], want[d], buf)
			for _, g := range got {
				a, cc := c15Fletcher(g)
				res.Obs = append(res.Obs, Ev{K: 21, I: []int64{int64(d), int64(len(g)), a, cc}})
				res.Delivered++
			}
			if undef {
				continue
			}
			switch {
			case o.Op == "flush" && !closed && refused[d] && len(got) > 0:
				res.fail("refused_message_not_sent", "op %d: destination %d received a %d-byte datagram from Flush although a write of this message had been refused (%d bytes were accepted for it)", idx, d, len(got[0]), len(acc[d]))
			case len(got) > want[d]:
				res.fail("no_unexpected_datagram", "op %d (%s): destination %d received %d datagram(s), expected %d", idx, o.Op, d, len(got), want[d])
			case len(got) < want[d]:
				res.fail("flush_sends_message", "op %d: destination %d received nothing from Flush, expected the %d bytes written since the previous Flush", idx, d, len(acc[d]))
			case want[d] == 1 && !bytes.Equal(got[0], acc[d]):
				res.fail("flush_exact", "op %d: destination %d received %d bytes that differ from the %d bytes written since the previous Flush", idx, d, len(got[0]), len(acc[d]))
			}
		}
		if check && o.Op == "flush" {
			faultless := !anyKilled && flakyDest < 0
			for d := range acc {
				faultless = faultless && !refused[d]
			}
			if faultless && n > 0 && code != 0 {
				res.fail("flush_without_fault_succeeds", "op %d: Flush returned an error (code %d) although every write of the message was accepted and no socket fault was injected; the transport is %d ms old", idx, code, time.Since(created).Milliseconds())
			}
			for d := range acc {
				acc[d], refused[d] = nil, false
			}
		}
		if o.Op == "close" {
			if n == 0 {
				// a multi transport without destinations stays "open": nothing to close
			} else if !c.Multi || code == 0 {
				closed = true
			} else if !closed {
				undef = true // a multi Close that failed half way: outside the direct predicate
			}
		}
	}
	// nothing may arrive after the last call
	time.Sleep(100 * time.Microsecond)
	for d := 0; d < n; d++ {
		if down[d] {
			continue
		}
		for _, g := range c15Recv(ls[d], 0, buf) {
			a, cc := c15Fletcher(g)
			res.Obs = append(res.Obs, Ev{K: 21, I: []int64{int64(d), int64(len(g)), a, cc}})
			res.fail("no_unexpected_datagram", "destination %d received a stray %d-byte datagram after the last call", d, len(g))
		}
	}
	return
}

// ---------------------------------------------------------------------------
// reporter-level scenario

type c15Handler struct{ batches []m3thrift.MetricBatch }

func (h *c15Handler) EmitMetricBatchV2(b m3thrift.MetricBatch) error {
	h.batches = append(h.batches, b)
	return nil
}

func c15Decode(d []byte, compact bool) (b []m3thrift.MetricBatch, err error) {
	defer func() {
		if p := recover(); p != nil {
			err = fmt.Errorf("decoder panicked: %v", p)
		}
	}()
	h := &c15Handler{}
	trans, _ := customtransport.NewTBufferedReadTransport(bytes.NewBuffer(d))
	var proto thrift.TProtocol
	if compact {
		proto = thrift.NewTCompactProtocol(trans)
	} else {
		proto = thrift.NewTBinaryProtocolTransport(trans)
	}
	ok, e := m3thrift.NewM3Processor(h).Process(proto, proto)
	if e != nil {
		return nil, e
	}
	if !ok {
		return nil, fmt.Errorf("not processed")
	}
	if rem := trans.RemainingBytes(); rem != 0 {
		return nil, fmt.Errorf("%d bytes left after the message", rem)
	}
	return h.batches, nil
}

type c15RepObs struct {
	Datagrams [][]int `json:"datagram_lengths"`
	Seen      []int   `json:"small_metrics_seen_per_destination"`
}

func c15RunReporter(c *c15Case) (obs c15RepObs, pred, fail string) {
	n := c.Dests
	ls := make([]*net.UDPConn, n)
	hp := make([]string, n)
	for i := range ls {
		ls[i] = c15Listen()
		hp[i] = ls[i].LocalAddr().String()
		defer ls[i].Close()
	}
	proto := m3.Compact
	if c.Proto == "binary" {
		proto = m3.Binary
	}
	born := time.Now()
	r, err := m3.NewReporter(m3.Options{HostPorts: hp, Service: "svc", Env: "test", Protocol: proto})
	if err != nil {
		fatal(err)
	}
	if len(c.Big) > 0 {
		tags := map[string]string{}
		for i, l := range c.Big[1:] {
			tags[fmt.Sprintf("t%d", i)] = strings.Repeat("x", l)
		}
		r.AllocateCounter(strings.Repeat("b", c.Big[0]), tags).ReportCount(1)
		r.Flush()
	}
	for k := 0; k < c.Later; k++ {
		for k == c.Later-1 && time.Since(born) < time.Duration(c.AgeMs)*time.Millisecond {
			time.Sleep(10 * time.Millisecond)
		}
		r.AllocateCounter(fmt.Sprintf("small%d", k), map[string]string{"a": "b"}).ReportCount(int64(k + 1))
		r.Flush()
	}
	r.Close()
	buf := make([]byte, 70000)
	for d := 0; d < n; d++ {
		got := c15Recv(ls[d], 1, buf)
		var lens []int
		seen := map[string]int{}
		for gi, g := range got {
			lens = append(lens, len(g))
			bs, err := c15Decode(g, proto == m3.Compact)
			if err != nil && fail == "" {
				pred, fail = "reporter_datagram_is_one_whole_batch", fmt.Sprintf("destination %d: datagram %d (%d bytes) is not one complete emitMetricBatchV2 message: %v", d, gi, len(g), err)
			}
			for _, b := range bs {
				for _, m := range b.Metrics {
					seen[m.Name]++
				}
			}
		}
		obs.Datagrams = append(obs.Datagrams, lens)
		cnt := 0
		for k := 0; k < c.Later; k++ {
			when := "after the oversized batch"
			if len(c.Big) == 0 {
				when = "in a normal round"
			}
			if c.AgeMs > 0 && k == c.Later-1 {
				when = fmt.Sprintf("when the reporter was %d ms old", c.AgeMs)
			}
			s := seen[fmt.Sprintf("small%d", k)]
			if s == 1 {
				cnt++
			}
			if s != 1 && fail == "" {
				pred, fail = "reporter_recovers", fmt.Sprintf("destination %d: metric small%d, reported %s, arrived %d times (expected once); %d datagrams arrived", d, k, when, s, len(got))
			}
		}
		obs.Seen = append(obs.Seen, cnt)
	}
	return
}

// ---------------------------------------------------------------------------
// overlapping Close calls ("Close is idempotent"; the transport keeps its
// closed flag in an atomic precisely because Close/IsOpen are called from
// other goroutines than the writer's: owner and shutdown hook)

type c15RaceObs struct {
	Round  int      `json:"round"`
	Errors []string `json:"close_results"`
}

func c15RunCloseRace(c *c15Case) (obs c15RaceObs, pred, fail string) {
	sink := c15Listen()
	defer sink.Close()
	n := c.Dests
	if !c.Multi {
		n = 1
	}
	hp := make([]string, n)
	for i := range hp {
		hp[i] = sink.LocalAddr().String()
	}
	k := c.Closers
	if k < 2 {
		k = 2
	}
	// Rounds transports, in batches: the k closers walk through a batch
	// together and meet at a spin barrier in front of every single Close, so
	// that the k calls on one transport start within a few instructions of
	// each other (no yield point is needed inside Close).
	const batch = 64
	for base := 0; base < c.Rounds && fail == ""; base += batch {
		m := batch
		if c.Rounds-base < m {
			m = c.Rounds - base
		}
		trs := make([]thrift.TTransport, m)
		for j := range trs {
			var err error
			if c.Multi {
				trs[j], err = thriftudp.NewTMultiUDPClientTransport(hp, "")
			} else {
				trs[j], err = thriftudp.NewTUDPClientTransport(hp[0], "")
			}
			if err != nil {
				fatal(err)
			}
			trs[j].Write([]byte("pending")) // Close with a message in the buffer
		}
		arrive := make([]int32, m)
		errs := make([][]error, m)
		for j := range errs {
			errs[j] = make([]error, k)
		}
		var done sync.WaitGroup
		done.Add(k)
		for i := 0; i < k; i++ {
			go func(i int) {
				defer done.Done()
				for j := 0; j < m; j++ {
					atomic.AddInt32(&arrive[j], 1)
					for spins := 1; atomic.LoadInt32(&arrive[j]) < int32(k); spins++ {
						if spins%512 == 0 {
							runtime.Gosched() // fewer processors than closers: let the others arrive
						}
					}
					func() {
						defer func() {
							if p := recover(); p != nil {
								errs[j][i] = fmt.Errorf("panic: %v", p)
							}
						}()
						errs[j][i] = trs[j].Close()
					}()
				}
			}(i)
		}
		done.Wait()
		for j := 0; j < m && fail == ""; j++ {
			tr, round := trs[j], base+j
			bad := -1
			var strs []string
			for i, e := range errs[j] {
				if e != nil {
					strs = append(strs, e.Error())
					if bad < 0 {
						bad = i
					}
				} else {
					strs = append(strs, "nil")
				}
			}
			switch {
			case bad >= 0:
				pred, fail = "close_idempotent_concurrent", fmt.Sprintf("round %d: of %d overlapping Close calls on a fresh transport, call #%d returned %q (the transport was closed normally: every Close must return nil)", round, k, bad, errs[j][bad])
			case n > 0 && tr.IsOpen():
				pred, fail = "use_after_close_not_open", fmt.Sprintf("round %d: IsOpen is true after %d overlapping Close calls", round, k)
			case n > 0 && c15Code(tr.Flush()) != 1:
				pred, fail = "use_after_close_not_open", fmt.Sprintf("round %d: Flush after %d overlapping Close calls did not return the not-open error", round, k)
			default:
				if e := tr.Close(); e != nil {
					pred, fail = "close_idempotent", fmt.Sprintf("round %d: Close after %d overlapping Close calls returned %q", round, k, e)
				}
			}
			if fail != "" {
				obs = c15RaceObs{Round: round, Errors: strs}
			}
		}
		for _, tr := range trs {
			tr.Close()
		}
	}
	if b, _, _ := c15RecvAny(sink); b {
		if fail == "" {
			pred, fail = "no_unexpected_datagram", "a datagram was sent by Close"
		}
	}
	return
}

func c15RecvAny(l *net.UDPConn) (bool, int, error) {
	buf := make([]byte, 70000)
	n, ok := c15Poll(l, buf)
	return ok, n, nil
}

// ---------------------------------------------------------------------------
// generator

// one message (the writes between two flushes); over = it does not fit.
// restricted: after the refused write only writes that the pinned tree refuses too.
func c15Msg(r *Rng, style int, rich, restricted bool) (ops []c15Op, over bool) {
	wr := func(n int) c15Op {
		switch {
		case rich && n == 1 && r.Chance(60):
			return c15Op{Op: "wb"}
		case rich && r.Chance(35):
			return c15Op{Op: "ws", N: n}
		}
		return c15Op{Op: "w", N: n}
	}
	switch style {
	case 0: // small
		for k := r.Intn(5); k > 0; k-- {
			ops = append(ops, wr(r.Intn(40)))
		}
	case 1: // total around the limit: one large chunk, then a tail of tiny ones
		total := c15Max + []int{-2, -1, 0, 0, 0, 1, 1, 2, 7}[r.Intn(9)]
		var tail []int
		for k := r.Intn(4); k > 0; k-- {
			tail = append(tail, 1+r.Intn(3))
		}
		first := total
		for _, t := range tail {
			first -= t
		}
		if r.Bool() && first > 30000 { // split the large chunk
			a := 20000 + r.Intn(first-25000)
			ops = append(ops, wr(a), wr(first-a))
		} else {
			ops = append(ops, wr(first))
		}
		if first > c15Max {
			over = true
			if restricted {
				return // the pinned tree would accept the tail onto the stale prefix
			}
		}
		sum := first
		for _, t := range tail {
			sum += t
			ops = append(ops, wr(t))
			if sum > c15Max && !over {
				over = true
				if restricted {
					break // the refused write is the last one of the message
				}
			}
		}
	case 2: // two chunks that do not fit together (the repository's TestHugeWrite)
		ops = append(ops, wr(40000), wr(40000))
		over = true
		if r.Bool() {
			if restricted {
				ops = append(ops, wr(40000))
			} else {
				ops = append(ops, wr(1+r.Intn(20)))
			}
		}
	case 3: // a single chunk larger than a datagram
		big := c15Max + 1 + r.Intn(3000)
		ops = append(ops, wr(big))
		over = true
		if r.Bool() {
			if restricted {
				ops = append(ops, wr(big))
			} else {
				ops = append(ops, wr(r.Intn(30)))
			}
		}
	case 4: // fill up byte by byte across the limit
		room := 1 + r.Intn(6)
		ops = append(ops, wr(c15Max-room))
		for k := 0; k < room+1+r.Intn(3); k++ {
			ops = append(ops, wr(1))
		}
		over = true
	}
	return
}

func c15Gen(r *Rng, restricted bool) c15Case {
	c := c15Case{Kind: "transport", Dests: 1}
	if r.Chance(45) {
		c.Multi = true
		c.Dests = []int{1, 2, 3, 3, 3, 3, 3, 2, 1, 3, 3, 0}[r.Intn(12)]
	}
	rich := !c.Multi
	bigLeft := 2
	if c.Dests >= 3 {
		bigLeft = 1
	}
	boundary := r.Chance(55)
	nmsg := 1 + r.Intn(4)
	stop := false
	for m := 0; m < nmsg && !stop; m++ {
		style := 0
		if boundary && bigLeft > 0 && r.Chance(70) {
			style = 1 + r.Intn(4)
			bigLeft--
		}
		ops, over := c15Msg(r, style, rich, restricted)
		c.Ops = append(c.Ops, ops...)
		switch {
		case over && restricted:
			stop = true // the pinned tree and the property part ways at the next Flush
		case over && r.Chance(30):
			// the writer abandons the message without flushing (generated client)
		case !restricted && r.Chance(8):
			// no flush: the next message is appended to this one
		default:
			c.Ops = append(c.Ops, c15Op{Op: "flush"})
		}
	}
	ins := func(o c15Op) {
		p := r.Intn(len(c.Ops) + 1)
		c.Ops = append(c.Ops[:p], append([]c15Op{o}, c.Ops[p:]...)...)
	}
	switch x := r.Intn(100); {
	case c.Dests == 0:
	case x < 27:
		d := r.Intn(c.Dests)
		if restricted && c.Multi {
			d = c.Dests - 1 // the pinned multi transport stops at the first failing destination
		}
		ins(c15Op{Op: "kill", D: d})
	case x < 45:
		// the destination is down for a while (its port is unreachable), then
		// comes back: messages flushed into the void, then the next messages
		d := r.Intn(c.Dests)
		p := r.Intn(len(c.Ops) + 1)
		if restricted {
			d, p = c.Dests-1, 0
		}
		c.Ops = append(c.Ops[:p], append(c15DownEpisode(r, d, rich), c.Ops[p:]...)...)
	}
	if r.Chance(25) {
		ins(c15Op{Op: "close"})
		if r.Chance(40) {
			ins(c15Op{Op: "close"})
		}
	}
	for k := r.Intn(3); k > 0; k-- {
		ins(c15Op{Op: []string{"isopen", "rem", "read", "isopen"}[r.Intn(4)]})
	}
	if r.Chance(30) {
		c.Ops = append(c.Ops, c15Op{Op: "close"})
		for k := r.Intn(4); k > 0; k-- {
			c.Ops = append(c.Ops, c15Op{Op: []string{"w", "wb", "ws", "flush", "close", "isopen", "read", "rem"}[r.Intn(8)], N: r.Intn(20)})
		}
	}
	return c
}

// destination d stops listening, 1..4 small messages are flushed at it, it
// listens again, 1..2 further messages follow
func c15DownEpisode(r *Rng, d int, rich bool) []c15Op {
	msg := func() []c15Op {
		var m []c15Op
		for k := 1 + r.Intn(2); k > 0; k-- {
			switch {
			case rich && r.Chance(25):
				m = append(m, c15Op{Op: "wb"})
			case rich && r.Chance(30):
				m = append(m, c15Op{Op: "ws", N: 1 + r.Intn(40)})
			default:
				m = append(m, c15Op{Op: "w", N: 1 + r.Intn(40)})
			}
		}
		return append(m, c15Op{Op: "flush"})
	}
	ops := []c15Op{{Op: "down", D: d}}
	for k := 1 + r.Intn(4); k > 0; k-- {
		ops = append(ops, msg()...)
	}
	ops = append(ops, c15Op{Op: "up", D: d})
	for k := 1 + r.Intn(2); k > 0; k-- {
		ops = append(ops, msg()...)
	}
	return ops
}

func c15TailByteCases(restricted bool) []c15Case {
	var out []c15Case
	i := 0
	for total := c15Max - 2; total <= c15Max+1; total++ {
		for tail := 1; tail <= 3; tail++ {
			i++
			if restricted && total > c15Max {
				continue // the pinned tree and the property part ways at the Flush after a refused write
			}
			var ops []c15Op
			if i%3 == 0 && !restricted { // an earlier message that is refused, ended by Flush
				ops = append(ops, c15Op{Op: "w", N: 40000}, c15Op{Op: "ws", N: 40000}, c15Op{Op: "flush"})
			}
			rest := total - tail
			switch i % 4 {
			case 0:
				ops = append(ops, c15Op{Op: "w", N: rest})
			case 1:
				ops = append(ops, c15Op{Op: "ws", N: rest})
			case 2:
				ops = append(ops, c15Op{Op: "w", N: 30000}, c15Op{Op: "ws", N: rest - 30000})
			default:
				ops = append(ops, c15Op{Op: "wb"}, c15Op{Op: "w", N: rest - 1})
			}
			for k := 0; k < tail; k++ {
				ops = append(ops, c15Op{Op: "wb"})
			}
			ops = append(ops, c15Op{Op: "flush"}, c15Op{Op: "wb"}, c15Op{Op: "flush"})
			c := c15Case{Kind: "transport", Dests: 1, Ops: ops}
			if i%6 == 5 { // through the multi transport a single byte is a 1-byte Write
				c.Multi, c.Dests = true, 2
			}
			out = append(out, c)
		}
	}
	return out
}

// the fixed part of the "destination down" stream: the collector restarts
// while messages are being flushed (cf. the property: "leaves the buffer empty
// whether or not the send succeeded", "after any failed or abandoned message
// the next message is transmitted complete, alone and uncorrupted")
func c15DownCases() []c15Case {
	ep := func(d, during int) []c15Op {
		ops := []c15Op{{Op: "w", N: 7}, {Op: "flush"}, {Op: "down", D: d}}
		for k := 0; k < during; k++ {
			ops = append(ops, c15Op{Op: "w", N: 19}, c15Op{Op: "flush"})
		}
		return append(ops, c15Op{Op: "up", D: d}, c15Op{Op: "w", N: 12}, c15Op{Op: "flush"}, c15Op{Op: "w", N: 5}, c15Op{Op: "flush"})
	}
	var out []c15Case
	for during := 1; during <= 4; during++ {
		out = append(out, c15Case{Kind: "transport", Dests: 1, Ops: ep(0, during)})
	}
	for d := 0; d < 3; d++ {
		out = append(out, c15Case{Kind: "transport", Multi: true, Dests: 3, Ops: ep(d, 2+d%2)})
	}
	// the message flushed while down nearly fills a datagram: kept bytes would make the next one oversize
	out = append(out, c15Case{Kind: "transport", Dests: 1, Ops: []c15Op{{Op: "down"}, {Op: "w", N: 30}, {Op: "flush"},
		{Op: "w", N: c15Max - 3}, {Op: "flush"}, {Op: "w", N: c15Max - 3}, {Op: "flush"}, {Op: "up"}, {Op: "w", N: 40}, {Op: "flush"}, {Op: "ws", N: 9}, {Op: "flush"}}})
	return out
}

func c15Term(idx int, c *c15Case, run *c15Run) string {
	mode := int64(0)
	if c.Multi {
		mode = 1
	}
	return gcase(idx, []int64{mode, int64(c.Dests), c15Max}, run.In, run.Obs)
}

var c15Witnesses = []c15Case{
	{Kind: "transport", Witness: "stale-prefix", Dests: 1, Ops: []c15Op{{Op: "w", N: 40000}, {Op: "w", N: 40000}, {Op: "w", N: 5}, {Op: "flush"}}},
	{Kind: "transport", Witness: "truncated-message-sent", Dests: 1, Ops: []c15Op{{Op: "w", N: 40000}, {Op: "w", N: 40000}, {Op: "flush"}, {Op: "w", N: 5}, {Op: "flush"}}},
	{Kind: "transport", Witness: "multi-starved-after-send-error", Multi: true, Dests: 3, Ops: []c15Op{{Op: "kill", D: 0}, {Op: "w", N: 11}, {Op: "flush"}, {Op: "w", N: 12}, {Op: "flush"}}},
	{Kind: "transport", Witness: "multi-stale-prefix", Multi: true, Dests: 3, Ops: []c15Op{{Op: "w", N: 40000}, {Op: "w", N: 40000}, {Op: "w", N: 4}, {Op: "flush"}, {Op: "w", N: 6}, {Op: "flush"}}},
	{Kind: "reporter", Witness: "reporter-next-batch-corrupted", Dests: 1, Proto: "compact", Big: []int{3, 70000}, Later: 3},
	{Kind: "reporter", Witness: "reporter-stuck", Dests: 1, Proto: "compact", Big: []int{64900, 200}, Later: 4},
	{Kind: "reporter", Witness: "reporter-multi", Dests: 3, Proto: "binary", Big: []int{3, 33000, 33000}, Later: 3},
}

func init() {
	props["C15"] = func(ctx *Ctx) {
		ctx.Header("UdpCorr")
		ctx.Res.Rule = "case = (single or multi transport with n destinations, sequence of Write/WriteByte/WriteString/Flush/Close/IsOpen/RemainingBytes/Read calls with chunk sizes around MaxLength; every Write is made from one re-used backing array that is overwritten as soon as the call returns; faults: socket of one destination closed behind the transport, or one destination down for a while (port unreachable, ECONNREFUSED) and back) or an M3 reporter scenario (oversized metric, then normal rounds) or a batch of rounds in which k goroutines call Close on a fresh transport at the same moment (counted in schedules); non-trivial = at least one datagram delivered or one fault (refused write, failed send, use after Close); distinct by case hash"
		ctx.Res.Extra["max_length"] = c15Max
		retried, inconclusive, refusedSends := 0, 0, 0
		// runs one case (retrying once: loopback UDP may drop); returns whether the property held
		// results of the slow cases, which run next to the main stream
		preT := map[*c15Case]chan c15Run{}
		type repRes struct {
			obs        c15RepObs
			pred, fail string
		}
		preR := map[*c15Case]chan repRes{}
		runTransport := func(c *c15Case) c15Run {
			if ch, ok := preT[c]; ok {
				delete(preT, c)
				return <-ch
			}
			return c15RunTransport(c)
		}
		runReporter := func(c *c15Case) (c15RepObs, string, string) {
			if ch, ok := preR[c]; ok {
				delete(preR, c)
				x := <-ch
				return x.obs, x.pred, x.fail
			}
			return c15RunReporter(c)
		}
		one := func(c *c15Case, witness bool) bool {
			if c.Kind == "closerace" {
				obs, pred, fail := c15RunCloseRace(c)
				kind := "single"
				if c.Multi {
					kind = fmt.Sprintf("multi%d", c.Dests)
				}
				ctx.Res.Schedules += c.Rounds
				ctx.Case(c, "", fmt.Sprintf("closerace/%s/closers=%d", kind, c.Closers), hashOf(c))
				if fail != "" {
					ctx.Fail(pred, fail, c, obs)
					return false
				}
				return true
			}
			if c.Kind == "reporter" {
				obs, pred, fail := runReporter(c)
				if fail != "" {
					retried++
					obs, pred, fail = runReporter(c)
				}
				cls := fmt.Sprintf("reporter/%s/dests=%d/big=%v", c.Proto, c.Dests, len(c.Big) > 0)
				if c.AgeMs > 0 {
					cls += "+aged"
				}
				ctx.Case(c, "", cls, hashOf(c))
				if fail != "" {
					if witness {
						ctx.FailKnown("F15", pred, fail, c, obs)
					} else {
						ctx.Fail(pred, fail, c, obs)
					}
					return false
				}
				return true
			}
			run := runTransport(c)
			if run.Fail != "" || run.Skip {
				retried++
				run = runTransport(c)
			}
			if run.Skip {
				// a listener could not be re-opened on its port (taken by another process): no verdict
				inconclusive++
				ctx.Case(c, "", "inconclusive/port-lost", "")
				return true
			}
			refusedSends += run.SendRefused
			kind := "single"
			if c.Multi {
				kind = fmt.Sprintf("multi%d", c.Dests)
			}
			fault := "clean"
			switch {
			case run.Refused > 0 && run.SendFail > 0:
				fault = "refused+sendfail"
			case run.Refused > 0:
				fault = "refused"
			case run.SendFail > 0:
				fault = "sendfail"
			case run.AfterClose > 0:
				fault = "afterclose"
			}
			if run.DestDown > 0 {
				fault += "+destdown"
			}
			if run.AgedMs > 0 {
				fault += "+aged"
			}
			key := ""
			if run.Delivered > 0 || fault != "clean" {
				key = hashOf(c)
			}
			term := c15Term(ctx.Res.Evaluations, c, &run)
			if run.Fail != "" && witness {
				term = "" // the pinned tree's witness: known to differ from the model
			}
			ctx.Case(c, term, kind+"/"+fault, key)
			if run.Fail != "" {
				if witness {
					ctx.FailKnown("F15", run.Pred, run.Fail, c, run.Obs)
				} else {
					ctx.Fail(run.Pred, run.Fail, c, run.Obs)
				}
				return false
			}
			return true
		}
		if ctx.Replay != nil {
			var c c15Case
			if err := json.Unmarshal(ctx.Replay, &c); err != nil {
				fatal(err)
			}
			one(&c, false)
			return
		}
		// Slow cases: a transport (a reporter) that is still in use some seconds
		// after it was created - "Each Flush sends ... exactly the bytes written
		// since the previous Flush" has no time limit, and the M3 reporter "keeps
		// emitting later batches" for the life of the process.  They are started
		// here, run next to the main stream and are collected after it.
		var aged []*c15Case
		ages := []int{2500}
		if ctx.Thorough() {
			ages = append(ages, 6000, 11000)
		}
		for _, a := range ages {
			aged = append(aged,
				&c15Case{Kind: "transport", Dests: 1, Ops: []c15Op{{Op: "w", N: 21}, {Op: "ws", N: 5}, {Op: "flush"}, {Op: "age", N: a},
					{Op: "w", N: 33}, {Op: "wb"}, {Op: "flush"}, {Op: "w", N: 7}, {Op: "flush"}, {Op: "close"}}},
				&c15Case{Kind: "transport", Multi: true, Dests: 3, Ops: []c15Op{{Op: "w", N: 21}, {Op: "flush"}, {Op: "age", N: a},
					{Op: "w", N: 33}, {Op: "w", N: 1}, {Op: "flush"}, {Op: "w", N: 7}, {Op: "flush"}}},
				&c15Case{Kind: "reporter", Dests: 1 + 2*(a/1000%2), Proto: []string{"compact", "binary"}[a/1000%2], Later: 3, AgeMs: a})
		}
		for _, c := range aged {
			c := c
			if c.Kind == "reporter" {
				ch := make(chan repRes, 1)
				preR[c] = ch
				go func() { o, p, f := c15RunReporter(c); ch <- repRes{o, p, f} }()
			} else {
				ch := make(chan c15Run, 1)
				preT[c] = ch
				go func() { ch <- c15RunTransport(c) }()
			}
		}
		// bytes still buffered when the transport is closed are not a message:
		// "Each Flush sends ..." - Close sends nothing (1 and 0..3 destinations)
		for _, c := range []c15Case{
			{Kind: "transport", Dests: 1, Ops: []c15Op{{Op: "w", N: 10}, {Op: "wb"}, {Op: "ws", N: 4}, {Op: "close"}, {Op: "close"}}},
			{Kind: "transport", Dests: 1, Ops: []c15Op{{Op: "w", N: 6}, {Op: "flush"}, {Op: "ws", N: 40000}, {Op: "close"}, {Op: "flush"}}},
			{Kind: "transport", Multi: true, Dests: 0, Ops: []c15Op{{Op: "w", N: 10}, {Op: "close"}}},
			{Kind: "transport", Multi: true, Dests: 1, Ops: []c15Op{{Op: "w", N: 10}, {Op: "w", N: 3}, {Op: "close"}, {Op: "close"}}},
			{Kind: "transport", Multi: true, Dests: 2, Ops: []c15Op{{Op: "w", N: 5}, {Op: "flush"}, {Op: "w", N: 3}, {Op: "close"}}},
			{Kind: "transport", Multi: true, Dests: 3, Ops: []c15Op{{Op: "w", N: 64000}, {Op: "wb"}, {Op: "close"}, {Op: "w", N: 2}}},
		} {
			c := c
			one(&c, false)
		}
		// the caller re-uses the slice it wrote from ("exactly the bytes written
		// since the previous Flush", whatever the caller does with its own memory
		// afterwards): messages whose first chunk is large, then small ones
		for _, c := range []c15Case{
			{Kind: "transport", Dests: 1, Ops: []c15Op{{Op: "w", N: 5000}, {Op: "flush"}, {Op: "w", N: 9}, {Op: "flush"}}},
			{Kind: "transport", Dests: 1, Ops: []c15Op{{Op: "w", N: 4096}, {Op: "w", N: 10}, {Op: "wb"}, {Op: "flush"}, {Op: "w", N: 7}, {Op: "ws", N: 3}, {Op: "flush"}}},
			{Kind: "transport", Dests: 1, Ops: []c15Op{{Op: "w", N: 1}, {Op: "w", N: 30000}, {Op: "flush"}, {Op: "w", N: c15Max}, {Op: "flush"}, {Op: "w", N: 2}, {Op: "flush"}}},
			{Kind: "transport", Multi: true, Dests: 3, Ops: []c15Op{{Op: "w", N: 6000}, {Op: "wb"}, {Op: "flush"}, {Op: "w", N: 20}, {Op: "flush"}}},
		} {
			c := c
			one(&c, false)
		}
		// witness stream: the op sequences on which the pinned tree violates the
		// property (finding F15).  If one of them fails, the tree under test has
		// the defect and the main stream stays where pinned and demanded
		// behaviour coincide.
		restricted := false
		for i := range c15Witnesses {
			if os.Getenv("VERIF_C15_SKIP_WITNESSES") != "" {
				break // generator self-test: does the main stream alone find a mutant?
			}
			w := c15Witnesses[i]
			if !one(&w, true) {
				restricted = true
			}
		}
		ctx.Res.Extra["f15_present"] = restricted
		if restricted {
			ctx.Note("F15 witnesses fail on this tree: main stream restricted (no Flush or further message after a refused write; sockets killed only on the last destination of a multi transport; no oversized metric in reporter scenarios)")
		}
		for _, raw := range ctx.CorpusCases() {
			var c c15Case
			if json.Unmarshal(raw, &c) != nil || c.Kind == "" || (restricted && c.Witness != "") {
				continue
			}
			slow := c.AgeMs > 0
			for _, o := range c.Ops {
				slow = slow || o.Op == "age"
			}
			if slow {
				continue // the slow inputs are built in and run next to the main stream; the stored ones are for --replay
			}
			one(&c, false)
		}
		// messages around the limit whose last bytes are written one by one
		// ("A write that would make the message exceed the maximum datagram length
		// is refused" - and no other): totals MaxLength-2 .. MaxLength+1, the final
		// 1..3 bytes by WriteByte after Write / WriteString of the rest, as the first
		// message and after a refused message that was ended by Flush
		for _, c := range c15TailByteCases(restricted) {
			c := c
			one(&c, false)
		}
		// "destination down" stream, fixed part (the random part is in c15Gen)
		if !restricted {
			for _, c := range c15DownCases() {
				c := c
				one(&c, false)
			}
		}
		n := ctx.N(450, 10000)
		for i := 0; i < n; i++ {
			c := c15Gen(ctx.R, restricted)
			one(&c, false)
		}
		// overlapping Close calls on fresh transports (uncontrolled interleavings)
		for i, nb := 0, ctx.N(12, 120); i < nb; i++ {
			c := c15Case{Kind: "closerace", Dests: 1, Closers: 2 + i%3, Rounds: 500}
			if i%4 == 3 {
				c.Multi, c.Dests = true, 2+i%2
			}
			one(&c, false)
		}
		nrep := ctx.N(8, 120)
		bigs := [][]int{{3, 70000}, {64000, 990}, {3, 33000, 33000}, {3, 66000}, {64900, 200}, {70000}}
		for i := 0; i < nrep; i++ {
			c := c15Case{Kind: "reporter", Dests: []int{1, 3, 2}[ctx.R.Intn(3)], Proto: []string{"compact", "binary"}[ctx.R.Intn(2)], Later: 2 + ctx.R.Intn(3)}
			if !restricted {
				c.Big = bigs[ctx.R.Intn(len(bigs))]
			}
			one(&c, false)
		}
		// collect the slow cases
		for _, c := range aged {
			one(c, false)
		}
		ctx.Res.Extra["retried_cases"] = retried
		ctx.Res.Extra["inconclusive_cases"] = inconclusive
		// 0 here means the kernel never answered a send to a closed port with ECONNREFUSED:
		// the "destination down" cases then only exercised lost datagrams (not an alarm)
		ctx.Res.Extra["sends_refused_by_kernel_econnrefused"] = refusedSends
	}
}
