package main

// C02 streams on how a gauge comes into being and goes away ("Gauge reports carry the latest value,
// never a stale or invented one"; quantifier: all update histories, any scopes, interleaved with report
// passes). Direct predicates only; values are unique per run so that a delivery identifies its Update.

import (
	"fmt"
	"runtime"
	"strings"
	"sync"
	"sync/atomic"

	tally "github.com/uber-go/tally/v4"
)

// c02Delivered collects the gauge deliveries of a recording reporter: name -> values in delivery order.
func c02Delivered(log *Log) map[string][]float64 {
	got := map[string][]float64{}
	alloc := map[int64]string{}
	for _, e := range log.Snapshot() {
		switch e.K {
		case 2:
			got[e.S[0]] = append(got[e.S[0]], fF(e.I[0]))
		case 12:
			alloc[e.I[0]] = e.S[0]
		case 22:
			n := alloc[e.I[0]]
			got[n] = append(got[n], fF(e.I[1]))
		}
	}
	return got
}

// c02FirstUse: par goroutines obtain the same, not yet existing gauge of one scope at the same moment;
// then the handles are updated one after the other (no concurrency) and a pass runs: whatever handle
// the last Update went through, the pass must deliver that value - the handles are one gauge.
func c02FirstUse(cached bool, rounds, par int, seed uint64) string {
	log := &Log{}
	opts := tally.ScopeOptions{OmitCardinalityMetrics: true}
	if cached {
		opts.CachedReporter = &RecCached{L: log, Caps: caps{true, true}}
	} else {
		opts.Reporter = &RecReporter{L: log, Caps: caps{true, true}}
	}
	root, closer := tally.VerifNewRootScope(opts, 0, 1)
	defer closer.Close()
	sub := root.SubScope("fu")
	r := NewRng(seed)
	next := 1000.0
	for k := 0; k < rounds; k++ {
		sc := root
		if k%2 == 1 {
			sc = sub
		}
		name := fmt.Sprintf("g%d", k)
		full := name
		if k%2 == 1 {
			full = "fu." + name
		}
		hs := make([]tally.Gauge, par)
		var ready, go_ int32
		var wg sync.WaitGroup
		for i := 0; i < par; i++ {
			wg.Add(1)
			go func(i int) {
				defer wg.Done()
				atomic.AddInt32(&ready, 1)
				for atomic.LoadInt32(&go_) == 0 {
					runtime.Gosched()
				}
				hs[i] = sc.Gauge(name)
			}(i)
		}
		for atomic.LoadInt32(&ready) < int32(par) {
			runtime.Gosched()
		}
		atomic.StoreInt32(&go_, 1)
		wg.Wait()
		order := make([]int, par)
		for i := range order {
			order[i] = i
		}
		for i := par - 1; i > 0; i-- {
			j := r.Intn(i + 1)
			order[i], order[j] = order[j], order[i]
		}
		var last float64
		for _, i := range order {
			next++
			last = next
			hs[i].Update(last)
		}
		tally.VerifReportOnce(root)
		got := c02Delivered(log)[full]
		if len(got) == 0 || got[len(got)-1] != last {
			return fmt.Sprintf("%d goroutines obtained the new gauge %q of one scope at the same moment; the handles were then updated one after the other, the last Update (through the handle of goroutine %d) set %v; the pass that followed delivered %v for that gauge (round %d)",
				par, full, order[len(order)-1], last, got, k)
		}
	}
	return ""
}

type c02CycleOp struct {
	Op  string `json:"op"` // get, update, close, pass
	Sp  int    `json:"sp,omitempty"`
	Sub bool   `json:"sub,omitempty"` // get: SubScope(spelling) instead of Tagged({spelling: 1})
}

type c02CycleCase struct {
	Cycle  bool         `json:"close_cycles"`
	Cached bool         `json:"cached"`
	Shards uint         `json:"shards"`
	Ops    []c02CycleOp `json:"ops"`
}

var c02Spellings = []string{"worker id", "worker_id", "worker.id", "worker/id"}

func c02GenCycle(r *Rng) c02CycleCase {
	c := c02CycleCase{Cycle: true, Cached: r.Bool(), Shards: 1}
	if r.Intn(5) == 0 {
		c.Shards = 4
	}
	nsp := r.Range(2, 3)
	sub := r.Chance(40) // the whole case derives by SubScope names instead of tag keys
	c.Ops = append(c.Ops, c02CycleOp{Op: "get", Sp: r.Intn(nsp), Sub: sub})
	for j, nj := 0, r.Range(6, 16); j < nj; j++ {
		switch x := r.Intn(20); {
		case x < 7:
			c.Ops = append(c.Ops, c02CycleOp{Op: "get", Sp: r.Intn(nsp), Sub: sub})
		case x < 12:
			c.Ops = append(c.Ops, c02CycleOp{Op: "update"})
		case x < 18:
			c.Ops = append(c.Ops, c02CycleOp{Op: "close"})
		default:
			c.Ops = append(c.Ops, c02CycleOp{Op: "pass"})
		}
	}
	return c
}

// c02Cycle: one goroutine; a sanitizer under which several spellings of a tag key are one identity;
// subscopes are obtained through these spellings, their gauge updated, the scope closed, obtained
// again ..., with or without passes in between; one complete pass at the end.  Every value that was
// the last Update of a gauge before its scope was closed (or before the end) must have been delivered:
// a closed scope is reported before it is dropped, whoever drops it.
func c02Cycle(c *c02CycleCase) string {
	g, _ := c02CycleBoth(c)
	return g
}

// c02CycleBoth also increments a counter of the scope by one with every update and returns, as second
// result, whether the counter deliveries of the whole run add up to the increments (used by C01).
func c02CycleBoth(c *c02CycleCase) (gaugeFail, counterFail string) {
	log := &Log{}
	opts := tally.ScopeOptions{OmitCardinalityMetrics: true, SanitizeOptions: &tally.SanitizeOptions{
		NameCharacters:       tally.ValidCharacters{Ranges: tally.AlphanumericRange, Characters: tally.UnderscoreDashCharacters},
		KeyCharacters:        tally.ValidCharacters{Ranges: tally.AlphanumericRange, Characters: tally.UnderscoreDashCharacters},
		ValueCharacters:      tally.ValidCharacters{Ranges: tally.AlphanumericRange, Characters: tally.UnderscoreDashCharacters},
		ReplacementCharacter: '_',
	}}
	if c.Cached {
		opts.CachedReporter = &RecCached{L: log, Caps: caps{true, true}}
	} else {
		opts.Reporter = &RecReporter{L: log, Caps: caps{true, true}}
	}
	root, closer := tally.VerifNewRootScope(opts, 0, c.Shards)
	defer closer.Close()
	type st struct {
		closed  bool
		pending float64
		has     bool
		gauge   tally.Gauge
		ctr     tally.Counter
		how     string
	}
	incs := int64(0)
	objs := map[tally.Scope]*st{} // keeps every scope object referenced: identities are not reused
	var retired []*st
	var cur tally.Scope
	next := 500.0
	var hist []string
	for _, o := range c.Ops {
		switch o.Op {
		case "get":
			sp := c02Spellings[o.Sp%len(c02Spellings)]
			if o.Sub {
				cur = root.SubScope(sp)
				hist = append(hist, fmt.Sprintf("SubScope(%q)", sp))
			} else {
				cur = root.Tagged(map[string]string{sp: "1"})
				hist = append(hist, fmt.Sprintf("Tagged{%q:1}", sp))
			}
			if old := objs[cur]; old == nil {
				objs[cur] = &st{gauge: cur.Gauge("g"), ctr: cur.Counter("c")}
			} else if old.closed {
				// the API handed the closed object out again: whatever it is, it is the scope the
				// caller now has, so what is recorded through it from here on must be delivered
				retired = append(retired, old)
				objs[cur] = &st{gauge: cur.Gauge("g"), ctr: cur.Counter("c")}
			}
		case "update":
			if cur == nil || objs[cur].closed {
				continue
			}
			next++
			s := objs[cur]
			s.gauge.Update(next)
			s.ctr.Inc(1)
			incs++
			s.pending, s.has = next, true
			s.how = strings.Join(hist, "; ")
			hist = append(hist, fmt.Sprintf("Update(%v)", next))
		case "close":
			if cur == nil {
				continue
			}
			cur.(interface{ Close() error }).Close()
			objs[cur].closed = true
			hist = append(hist, "Close")
		case "pass":
			tally.VerifReportOnce(root)
			hist = append(hist, "pass")
		}
	}
	tally.VerifReportOnce(root)
	delivered := map[float64]bool{}
	for _, vs := range c02Delivered(log) {
		for _, v := range vs {
			delivered[v] = true
		}
	}
	all := append([]*st(nil), retired...)
	for _, s := range objs {
		all = append(all, s)
	}
	for _, s := range all {
		if s.has && !delivered[s.pending] {
			gaugeFail = fmt.Sprintf("history: %s; final pass. The gauge updated to %v (its last update before its scope was closed / before the end) was never delivered with that value; deliveries: %v",
				strings.Join(hist, "; "), s.pending, c02Delivered(log))
			break
		}
	}
	var got int64
	alloc := map[int64]bool{}
	for _, e := range log.Snapshot() {
		switch e.K {
		case 1:
			got += e.I[0]
		case 11:
			alloc[e.I[0]] = true
		case 21:
			if alloc[e.I[0]] {
				got += e.I[1]
			}
		}
	}
	if got != incs {
		counterFail = fmt.Sprintf("history: %s; final pass. The counters of these scopes were incremented %d times (each before its scope's Close); %d delivered in total", strings.Join(hist, "; "), incs, got)
	}
	return
}
