package main

// C09 — concurrent first use creates one metric per identity (and one child
// scope per identity: that part runs on the registry scenarios of C07 without
// Close operations). Controlled schedules over the yield points between the
// probe and the locked re-check of Counter / Gauge / Timer / Histogram.

import (
	"strings"
	"encoding/json"
	"fmt"
	"math"
	"sync"
	"sync/atomic"
	"time"

	tally "github.com/uber-go/tally/v4"
)

type c09Op struct {
	Op   string `json:"op"` // get | rec | pass
	Kind int    `json:"kind,omitempty"`
	Name int    `json:"name,omitempty"`
}
type c09Case struct {
	Cached bool      `json:"cached"`
	Progs  [][]c09Op `json:"progs"`
	Sched  []int     `json:"sched"`
}
type c09Out struct {
	Labels []int64 `json:"labels"`
	Sched  []int   `json:"sched"`
	Gets   []int64 `json:"gets"`   // kind, name, object
	Allocs []int64 `json:"allocs"` // kind, name
	Objs   []int64 `json:"objs"`   // recorded, delivered per object
	Fail   string  `json:"fail,omitempty"`
}

var c09Deadlocks int

func c09Exec(c *c09Case) (out c09Out) {
	log := &Log{}
	opts := tally.ScopeOptions{OmitCardinalityMetrics: true}
	if c.Cached {
		opts.CachedReporter = &RecCached{L: log, Caps: caps{true, true}}
	} else {
		opts.Reporter = &RecReporter{L: log, Caps: caps{true, true}}
	}
	root, closer := tally.VerifNewRootScope(opts, 0, 1)
	scope := root.SubScope("s")
	ctl := NewCtl()
	tally.VerifSetYield(func(p int) {
		if p == 0 || (p >= 51 && p <= 54) {
			ctl.Yield(p)
		}
	})
	dead := false // a goroutine stayed blocked: the case is abandoned (its goroutines cannot be released)
	defer func() {
		setYield(nil)
		if !dead {
			closer.Close()
		} else {
			c09Deadlocks++
		}
	}()
	var mu sync.Mutex
	objIdx := map[string]int{}
	type obj struct {
		kind, name int
		rec        int64
	}
	var objs []obj
	firstOf := map[[2]int]int{}
	for pi, prog := range c.Progs {
		pi, prog := pi, prog
		ctl.Go(func() {
			var cur interface{}
			curObj := -1
			for i, o := range prog {
				if i > 0 {
					ctl.Yield(0)
				}
				switch o.Op {
				case "get":
					name := fmt.Sprintf("n%d", o.Name)
					var h interface{}
					switch o.Kind {
					case 0:
						h = scope.Counter(name)
					case 1:
						h = scope.Gauge(name)
					case 2:
						h = scope.Timer(name)
					case 3:
						// the identity of a histogram is its name: callers that pass other buckets
						// share the histogram that was registered first
						switch pi % 3 {
						case 0:
							h = scope.Histogram(name, tally.ValueBuckets{1, 2})
						case 1:
							h = scope.Histogram(name, tally.ValueBuckets{1, 2, 3})
						default:
							h = scope.Histogram(name, tally.ValueBuckets{0.5, 4})
						}
					}
					id := fmt.Sprintf("%d/%p", o.Kind, h)
					mu.Lock()
					k, ok := objIdx[id]
					if !ok {
						k = len(objs)
						objIdx[id] = k
						objs = append(objs, obj{kind: o.Kind, name: o.Name})
					}
					key := [2]int{o.Kind, o.Name}
					if f, seen := firstOf[key]; !seen {
						firstOf[key] = k
					} else if f != k && out.Fail == "" {
						out.Fail = fmt.Sprintf("two different objects were returned for kind %d name n%d (objects %d and %d)", o.Kind, o.Name, f, k)
					}
					out.Gets = append(out.Gets, int64(o.Kind), int64(o.Name), int64(k))
					mu.Unlock()
					cur, curObj = h, k
				case "rec":
					if cur == nil {
						continue
					}
					mu.Lock()
					objs[curObj].rec++
					n := objs[curObj].rec
					mu.Unlock()
					switch h := cur.(type) {
					case tally.Counter:
						h.Inc(1)
					case tally.Gauge:
						h.Update(float64(n))
					case tally.Histogram:
						h.RecordValue(1.5)
					case tally.Timer:
						h.Record(time.Nanosecond)
					}
				case "pass":
					tally.VerifReportOnce(root)
				}
			}
		})
	}
	n := ctl.N()
	step := func(i int) {
		if dead || i >= n || ctl.Done(i) {
			return
		}
		l := ctl.Step(i)
		if l == Stutter {
			return
		}
		if l == Blocked {
			// no goroutine ever parks inside a critical section of the getters: a blocked
			// first-use call is a deadlock (the classification comes from the runtime's
			// goroutine status, not from elapsed time)
			if out.Fail == "" {
				out.Fail = "a first-use call blocked on a lock although no goroutine was inside a critical section (deadlock?)"
			}
			for g := 0; g < 40 && l == Blocked; g++ {
				l = ctl.Step(i)
			}
			if l == Blocked {
				dead = true
				return
			}
		}
		out.Labels = append(out.Labels, int64(l))
		out.Sched = append(out.Sched, i)
	}
	for _, i := range c.Sched {
		step(i)
	}
	// complete: every thread but the last (the final report pass), then that one
	for g := 0; g < 10000; g++ {
		busy := false
		for i := 0; i < n-1; i++ {
			if !ctl.Done(i) {
				busy = true
				step(i)
			}
		}
		if !busy || dead {
			break
		}
	}
	for g := 0; g < 10000 && !ctl.Done(n-1) && !dead; g++ {
		step(n - 1)
	}
	// observables: allocations and deliveries
	handleObj := map[int64]int{} // cached handle id -> object
	bucketObj := map[int64]int{}
	del := make([]int64, len(objs))
	find := func(kind int, full string) int {
		var nm int
		fmt.Sscanf(full, "s.n%d", &nm)
		if k, ok := firstOf[[2]int{kind, nm}]; ok {
			return k
		}
		return -1
	}
	nameOf := func(full string) int64 {
		var nm int
		fmt.Sscanf(full, "s.n%d", &nm)
		return int64(nm)
	}
	for _, e := range log.Snapshot() {
		switch e.K {
		case 11, 12, 13, 14:
			out.Allocs = append(out.Allocs, int64(e.K-11), nameOf(e.S[0]))
			handleObj[e.I[0]] = find(e.K-11, e.S[0])
		case 24:
			bucketObj[e.I[3]] = handleObj[e.I[0]]
		case 1:
			if o := find(0, e.S[0]); o >= 0 {
				del[o] += e.I[0]
			}
		case 2:
			if o := find(1, e.S[0]); o >= 0 {
				del[o] = int64(fF(e.I[0]))
			}
		case 4:
			if o := find(3, e.S[0]); o >= 0 {
				del[o] += e.I[2]
			}
		case 21:
			if o := handleObj[e.I[0]]; o >= 0 {
				del[o] += e.I[1]
			}
		case 22:
			if o := handleObj[e.I[0]]; o >= 0 {
				del[o] = int64(fF(e.I[1]))
			}
		case 26:
			if o := bucketObj[e.I[0]]; o >= 0 {
				del[o] += e.I[1]
			}
		}
	}
	for i, o := range objs {
		out.Objs = append(out.Objs, o.rec, del[i])
	}
	// direct predicate: Allocate at most once per (kind, name)
	seen := map[[2]int64]bool{}
	for i := 0; i+1 < len(out.Allocs); i += 2 {
		k := [2]int64{out.Allocs[i], out.Allocs[i+1]}
		if seen[k] && out.Fail == "" {
			out.Fail = fmt.Sprintf("Allocate was called twice for kind %d name n%d", k[0], k[1])
		}
		seen[k] = true
	}
	// everything recorded through any handle is delivered by the final pass (every program ends with one)
	for i, o := range objs {
		if o.kind != 2 && del[i] != o.rec && out.Fail == "" {
			out.Fail = fmt.Sprintf("object %d (kind %d name n%d): %d recorded through its handles, %d delivered after the final pass", i, o.kind, o.name, o.rec, del[i])
		}
	}
	return
}

func fF(bits int64) float64 { return math.Float64frombits(uint64(bits)) }

func c09Term(idx int, c *c09Case, out *c09Out) string {
	var in []Ev
	for _, prog := range c.Progs {
		var ops []int64
		for _, o := range prog {
			switch o.Op {
			case "get":
				ops = append(ops, 1, int64(o.Kind), int64(o.Name))
			case "rec":
				ops = append(ops, 2, 0, 0)
			case "pass":
				ops = append(ops, 3, 0, 0)
			}
		}
		in = append(in, Ev{K: 40, I: ops})
	}
	s := make([]int64, len(out.Sched))
	for i, v := range out.Sched {
		s[i] = int64(v)
	}
	in = append(in, Ev{K: 42, I: s})
	obs := []Ev{{K: 43, I: out.Labels}, {K: 45, I: out.Gets}, {K: 48, I: out.Allocs}, {K: 46, I: out.Objs}}
	return gcase(idx, []int64{b2i(c.Cached)}, in, obs)
}

func c09Gen(r *Rng) c09Case {
	c := c09Case{Cached: r.Chance(60)}
	nth := r.Range(2, 4)
	nnames := r.Range(1, 2)
	for t := 0; t < nth; t++ {
		var prog []c09Op
		kind := r.Intn(4)
		for j, nj := 0, r.Range(1, 4); j < nj; j++ {
			if r.Chance(30) {
				kind = r.Intn(4)
			}
			prog = append(prog, c09Op{Op: "get", Kind: kind, Name: r.Intn(nnames)})
			if kind != 2 {
				for k, nk := 0, r.Intn(3); k < nk; k++ {
					prog = append(prog, c09Op{Op: "rec"})
				}
			}
			if r.Chance(15) {
				prog = append(prog, c09Op{Op: "pass"})
			}
		}
		prog = append(prog, c09Op{Op: "pass"})
		c.Progs = append(c.Progs, prog)
	}
	// the last pass of the last thread must come after everything else: the harness completes
	// threads in index order after the schedule, so make the final pass a thread of its own
	c.Progs = append(c.Progs, []c09Op{{Op: "pass"}})
	for j := 0; j < 40; j++ {
		c.Sched = append(c.Sched, r.Intn(nth))
	}
	return c
}

func init() {
	props["C09"] = func(ctx *Ctx) {
		ctx.Header("FirstUseCorr")
		ctx.Res.Rule = "case = (programs of 2..4 goroutines over {obtain (kind, name), record, report pass} on one live scope, reporter flavour, schedule over the yield points between probe and locked re-check of the four getters); plus child-scope first use on the registry scenarios without Close; non-trivial = two goroutines were between probe and lock for the same (kind, name) at once; distinct by (case, executed schedule)"
		nsched := 0
		one := func(c *c09Case) {
			if c09Deadlocks >= 3 {
				return // deadlocked goroutines cannot be released: three witnesses are enough
			}
			out := c09Exec(c)
			key := ""
			// two threads parked at a lock label for the same key at once
			at := map[int]int64{}
			for k, i := range out.Sched {
				at[i] = out.Labels[k]
				cnt := 0
				for _, l := range at {
					if l >= 51 && l <= 54 {
						cnt++
					}
				}
				if cnt >= 2 {
					key = hashOf([]interface{}{c.Progs, c.Cached, out.Sched})
				}
			}
			cc := *c
			cc.Sched = out.Sched
			idx := ctx.Res.Evaluations
			ctx.Case(cc, c09Term(idx, c, &out), fmt.Sprintf("threads=%d/cached=%v", len(c.Progs), c.Cached), key)
			nsched++
			if out.Fail != "" {
				ctx.Fail("one_object_per_identity_allocate_once_all_delivered", out.Fail, cc, out)
			}
		}
		if ctx.Replay != nil {
			if lkReplay(ctx) {
				return
			}
			var ap struct {
				API    bool `json:"api_storm_in_child_process"`
				Rounds int  `json:"rounds"`
			}
			if json.Unmarshal(ctx.Replay, &ap) == nil && ap.API {
				for k := 0; k < 5 && len(ctx.Res.Failures) == 0; k++ {
					c09RaceStorm(ctx, ap.Rounds)
				}
				return
			}
			var sp struct {
				Storm  bool `json:"storm"`
				Rounds int  `json:"rounds"`
				San    bool `json:"sanitizer"`
			}
			if json.Unmarshal(ctx.Replay, &sp) == nil && sp.Storm {
				ctx.Case(sp, "", "uncontrolled-first-use-rounds", "")
				if f := c09Storm(sp.Rounds*4, 8, sp.San); f != "" {
					ctx.Fail("one_object_per_identity_allocate_once_all_delivered", f, sp, nil)
				}
				return
			}
			var rl struct {
				R      bool `json:"registration_during_last_report"`
				ByPass bool `json:"by_pass"`
				Omit   bool `json:"omit_cardinality"`
			}
			if json.Unmarshal(ctx.Replay, &rl) == nil && rl.R {
				ctx.Case(rl, "", "registration-overlapping-the-last-report", "")
				if f := c01RegDuringLastReport(rl.ByPass, rl.Omit); f != "" {
					ctx.Fail("one_object_per_identity_allocate_once_all_delivered", f, rl, nil)
				}
				return
			}
			var cp struct {
				P      bool `json:"child_close_during_root_purge"`
				Rounds int  `json:"rounds"`
				Kids   int  `json:"children"`
			}
			if json.Unmarshal(ctx.Replay, &cp) == nil && cp.P {
				ctx.Case(cp, "", "child-close-during-root-purge", "")
				if f := c09ClosePurge(cp.Rounds*4, cp.Kids); f != "" {
					ctx.Fail("no_panic_no_deadlock", f, cp, nil)
				}
				return
			}
			var pa struct {
				P    bool `json:"first_use_panics_then_more_use"`
				Kind int  `json:"kind"`
			}
			if json.Unmarshal(ctx.Replay, &pa) == nil && pa.P {
				ctx.Case(pa, "", "first-use-panics-then-more-use", "")
				if f := c09AfterPanic(pa.Kind); f != "" {
					ctx.Fail("no_panic_no_deadlock", f, pa, nil)
				}
				return
			}
			var gs struct {
				G      bool `json:"recording_on_registered_gauge_during_passes"`
				Cached bool `json:"cached"`
				Wait   bool `json:"updater_waits_for_delivery"`
			}
			if json.Unmarshal(ctx.Replay, &gs) == nil && gs.G {
				ctx.Case(gs, "", "recording-on-registered-metrics-during-passes", "")
				for k := 0; k < 200; k++ {
					if f := c02Stress(gs.Cached, gs.Wait); f != "" {
						ctx.Fail("one_object_per_identity_allocate_once_all_delivered", "recording on an already registered gauge while report passes run: "+f, gs, nil)
						return
					}
				}
				return
			}
			var c c09Case
			if err := json.Unmarshal(ctx.Replay, &c); err != nil {
				fatal(err)
			}
			one(&c)
			return
		}
		// first of all, the whole scope API at once in a child process: an unsynchronised map kills the
		// process it happens in, and the streams below run inside the harness itself
		c09RaceStorm(ctx, ctx.N(4000, 30000))
		if len(ctx.Res.Failures) > 0 {
			return
		}
		for _, raw := range ctx.CorpusCases() {
			var c c09Case
			if json.Unmarshal(raw, &c) == nil {
				one(&c)
			}
		}
		// all interleavings of three goroutines asking for the same counter at once
		base := c09Case{Cached: true, Progs: [][]c09Op{
			{{Op: "get"}, {Op: "rec"}}, {{Op: "get"}, {Op: "rec"}}, {{Op: "get"}, {Op: "rec"}}, {{Op: "pass"}}}}
		var rec func(prefix []int, left [3]int)
		count := 0
		rec = func(prefix []int, left [3]int) {
			done := true
			for t := 0; t < 3; t++ {
				if left[t] > 0 {
					done = false
					l2 := left
					l2[t]--
					rec(append(append([]int(nil), prefix...), t), l2)
				}
			}
			if done && count < 2000 {
				c := base
				c.Sched = prefix
				one(&c)
				count++
			}
		}
		rec(nil, [3]int{3, 3, 3})
		ctx.Res.Extra["interleavings_3_goroutines_same_counter"] = count
		n := ctx.N(400, 8000)
		for k := 0; k < n; k++ {
			c := c09Gen(ctx.R)
			one(&c)
		}
		// child scopes: registry scenarios without Close; all requests for spellings the
		// sanitizer maps together must return one object
		m := ctx.N(200, 4000)
		for k := 0; k < m; k++ {
			rc := c07Gen(ctx.R, ctx.Thorough())
			rc.Shards = []int{1, 1, 2, 16}[ctx.R.Intn(4)]
			if rc.Shards > 1 {
				rc.San = false // raw = sanitized spelling: one registry key, hence one shard, per identity
			}
			for ti := range rc.Progs {
				var p []regOp
				for _, o := range rc.Progs[ti] {
					if o.Op != "close" {
						p = append(p, o)
					}
				}
				rc.Progs[ti] = p
			}
			out, _ := c07Exec(&rc, true)
			fail := regPredicate(&out)
			// one live object per sanitized spelling
			tab := regSanTable(&rc)
			byIdent := map[int64]int64{}
			for i, o := range out.Objs {
				if i == 0 || o.Spell < 0 {
					continue
				}
				id := tab[o.Spell]
				if prev, ok := byIdent[id]; ok && prev != int64(i) && fail == "" {
					fail = fmt.Sprintf("two live scope objects (%d and %d) for one identity (sanitized spelling key %d)", prev, i, id)
				}
				byIdent[id] = int64(i)
			}
			ctx.Case(rc, "", fmt.Sprintf("subscope-first-use/threads=%d", len(rc.Progs)), "")
			if fail != "" {
				ctx.Fail("one_scope_per_identity", fail, rc, out)
			}
		}
		ctx.Res.Schedules = nsched
		// uncontrolled: goroutines really first-use the same fresh name at once (spin barrier)
		rounds := ctx.N(300, 6000)
		for _, san := range []bool{false, true} {
			if f := c09Storm(rounds, 8, san); f != "" {
				ctx.Fail("one_object_per_identity_allocate_once_all_delivered", f, map[string]interface{}{"storm": true, "rounds": rounds, "sanitizer": san}, nil)
				break
			}
			ctx.Res.Evaluations += rounds
			ctx.Res.Histogram["uncontrolled-first-use-rounds"] += rounds
		}
		// a first use in flight (inside the reporter's Allocate, holding the scope's lock) while the scope's
		// LAST report runs - by a pass or by asking for the closed scope again: "everything recorded
		// through the handles is delivered" (stream of C01)
		for k := 0; k < 4; k++ {
			cs := map[string]interface{}{"registration_during_last_report": true, "by_pass": k%2 == 0, "omit_cardinality": k < 2}
			ctx.Case(cs, "", "registration-overlapping-the-last-report", "")
			if f := c01RegDuringLastReport(k%2 == 0, k < 2); f != "" {
				ctx.Fail("one_object_per_identity_allocate_once_all_delivered", f, cs, nil)
			}
		}
		// child scopes closed by several goroutines while the root's Close drops them
		{
			cs := map[string]interface{}{"child_close_during_root_purge": true, "rounds": ctx.N(60, 600), "children": 400}
			ctx.Case(cs, "", "child-close-during-root-purge", "")
			if f := c09ClosePurge(ctx.N(60, 600), 400); f != "" {
				ctx.Fail("no_panic_no_deadlock", f, cs, nil)
			}
		}
		// a first use panics inside the library's first-use path (reporter allocation, rejected bucket
		// type), the caller recovers: the scope stays usable
		for kind := 0; kind < 5; kind++ {
			cs := map[string]interface{}{"first_use_panics_then_more_use": true, "kind": kind}
			ctx.Case(cs, "", "first-use-panics-then-more-use", "")
			if f := c09AfterPanic(kind); f != "" {
				ctx.Fail("no_panic_no_deadlock", f, cs, nil)
				break
			}
		}
		// "... while other goroutines record on already-registered metrics and a report pass runs":
		// everything recorded through the handles is delivered - counters and histogram buckets by the
		// streams of C01 (sums), gauges here: an updater against three goroutines running passes; once the
		// updates stop and every reporter has completed two more passes the last update must have been
		// delivered (stream of C02)
		for k, nk := 0, ctx.N(16, 400); k < nk; k++ {
			cs := map[string]interface{}{"recording_on_registered_gauge_during_passes": true, "cached": k%2 == 1, "updater_waits_for_delivery": k%4 < 2}
			ctx.Case(cs, "", "recording-on-registered-metrics-during-passes", "")
			if f := c02Stress(k%2 == 1, k%4 < 2); f != "" {
				ctx.Fail("one_object_per_identity_allocate_once_all_delivered", "recording on an already registered gauge while report passes run: "+f, cs, nil)
				break
			}
		}
		// child scopes asked for while others close and re-obtain them (the registry cycles of C07 under the
		// schedule controller): every live identity keeps one object and its records
		regCrossStream(ctx, ctx.N(80, 2000), "one_scope_per_identity")
		// derivations that denote the asked scope itself (no new tags, an empty name), for every shard
		// count: the scope itself must come back, one counter object, one Allocate, everything delivered
		for _, shards := range []int{1, 2, 3, 8, 16} {
			for _, cached := range []bool{false, true} {
				cs := map[string]interface{}{"self_derivation": true, "shards": shards, "cached": cached}
				ctx.Case(cs, "", "derivations-denoting-the-scope-itself", "")
				if f := c09Self(shards, cached); f != "" {
					ctx.Fail("one_scope_per_identity", f, cs, nil)
				}
			}
		}
		// the lock semantics the deadlock-freedom theorem is about (RWMutex with writer preference,
		// WaitGroup.Wait), compared step by step with the toolchain's sync package
		lkStream(ctx, ctx.N(200, 4000))
	}
}

// c09Self: 8 goroutines first-use one counter through the root and through derivations that denote the
// root itself; several registries per shard count (the shard of a key depends on the registry's seed).
func c09Self(shards int, cached bool) string {
	for round := 0; round < 12; round++ {
		log := &Log{}
		opts := tally.ScopeOptions{OmitCardinalityMetrics: true, Tags: map[string]string{"service": "demo"}}
		if round%2 == 1 {
			opts.Tags = nil
		}
		if cached {
			opts.CachedReporter = &RecCached{L: log, Caps: caps{true, true}}
		} else {
			opts.Reporter = &RecReporter{L: log, Caps: caps{true, true}}
		}
		root, closer := tally.VerifNewRootScope(opts, 0, uint(shards))
		derivs := []func() tally.Scope{
			func() tally.Scope { return root },
			func() tally.Scope { return root.Tagged(nil) },
			func() tally.Scope { return root.Tagged(map[string]string{}) },
			func() tally.Scope { return root.SubScope("") },
			func() tally.Scope { return root.Tagged(map[string]string{}).SubScope("").Tagged(nil) },
		}
		if opts.Tags != nil {
			derivs = append(derivs, func() tally.Scope { return root.Tagged(map[string]string{"service": "demo"}) })
		}
		const G = 8
		ids := make([]string, G)
		cids := make([]string, G)
		var wg sync.WaitGroup
		var arrived int32
		for g := 0; g < G; g++ {
			g := g
			wg.Add(1)
			go func() {
				defer wg.Done()
				atomic.AddInt32(&arrived, 1)
				for atomic.LoadInt32(&arrived) < G {
				}
				sc := derivs[g%len(derivs)]()
				ids[g] = tally.VerifScopeID(sc)
				c := sc.Counter("requests")
				cids[g] = fmt.Sprintf("%p", c)
				c.Inc(1)
			}()
		}
		if dl := waitOrDeadlock(&wg, "uber-go/tally/v4."); dl != "" {
			return dl
		}
		tally.VerifReportOnce(root)
		var sum int64
		allocs := 0
		for _, e := range log.Snapshot() {
			switch e.K {
			case 1:
				sum += e.I[0]
			case 21:
				sum += e.I[1]
			case 11:
				allocs++
			}
		}
		closer.Close()
		for g := 1; g < G; g++ {
			if ids[g] != ids[0] {
				return fmt.Sprintf("%d shards: a derivation that denotes the root itself (no new tags / empty name) returned a different scope object than the root (goroutine %d of %d)", shards, g, G)
			}
			if cids[g] != cids[0] {
				return fmt.Sprintf("%d shards: Counter(\"requests\") through derivations denoting one scope returned different counter objects", shards)
			}
		}
		if cached && allocs != 1 {
			return fmt.Sprintf("%d shards: AllocateCounter was called %d times for one counter identity", shards, allocs)
		}
		if sum != G {
			return fmt.Sprintf("%d shards: %d increments through handles of one counter identity, %d delivered", shards, G, sum)
		}
	}
	return ""
}

// c09Storm: per round G goroutines pass a spin barrier and ask one live scope for the same,
// never used before, metric; they must all get one object, the cached reporter's Allocate must be
// called once, and what they record must be delivered.
func c09Storm(rounds, G int, san bool) string {
	log := &Log{}
	opts := tally.ScopeOptions{OmitCardinalityMetrics: true, CachedReporter: &RecCached{L: log, Caps: caps{true, true}}}
	dirty := ""
	if san {
		// a sanitizer and names it has to rewrite: every getter sanitizes the name before it probes
		opts.SanitizeOptions = &tally.SanitizeOptions{
			NameCharacters:       tally.ValidCharacters{Ranges: tally.AlphanumericRange, Characters: tally.UnderscoreDashCharacters},
			KeyCharacters:        tally.ValidCharacters{Ranges: tally.AlphanumericRange, Characters: tally.UnderscoreDashCharacters},
			ValueCharacters:      tally.ValidCharacters{Ranges: tally.AlphanumericRange, Characters: tally.UnderscoreDashCharacters},
			ReplacementCharacter: '_',
		}
		dirty = " x!"
	}
	root, closer := tally.VerifNewRootScope(opts, 0, 2)
	deadlocked := false
	defer func() {
		if !deadlocked {
			closer.Close()
		}
	}()
	scope := root.SubScope("storm")
	ids := make([]string, G)
	for r := 0; r < rounds; r++ {
		kind := r % 4
		name := fmt.Sprintf("m%d%s", r, dirty)
		var arrived int32
		var wg sync.WaitGroup
		for g := 0; g < G; g++ {
			g := g
			wg.Add(1)
			go func() {
				defer wg.Done()
				atomic.AddInt32(&arrived, 1)
				for atomic.LoadInt32(&arrived) < int32(G) {
				}
				switch kind {
				case 0:
					c := scope.Counter(name)
					ids[g] = fmt.Sprintf("%p", c)
					c.Inc(1)
				case 1:
					x := scope.Gauge(name)
					ids[g] = fmt.Sprintf("%p", x)
					x.Update(7)
				case 2:
					t := scope.Timer(name)
					ids[g] = fmt.Sprintf("%p", t)
					t.Record(time.Nanosecond)
				case 3:
					var b tally.Buckets = tally.ValueBuckets{1, 2}
					switch g % 3 { // the identity of a histogram is its name, whatever buckets a caller passes
					case 1:
						b = tally.ValueBuckets{1, 2, 3}
					case 2:
						b = tally.ValueBuckets{0.5, 4}
					}
					h := scope.Histogram(name, b)
					ids[g] = fmt.Sprintf("%p", h)
					h.RecordValue(1.5)
				}
			}()
		}
		if dl := waitOrDeadlock(&wg, "uber-go/tally/v4."); dl != "" {
			deadlocked = true
			return fmt.Sprintf("round %d: %d goroutines asked the same scope for %s %q at once (or a later round found the lock of an earlier one still held): %s", r, G, []string{"counter", "gauge", "timer", "histogram"}[kind], name, dl)
		}
		for g := 1; g < G; g++ {
			if ids[g] != ids[0] {
				return fmt.Sprintf("round %d: %d goroutines asked the same scope for %s %q at once and got different objects", r, G, []string{"counter", "gauge", "timer", "histogram"}[kind], name)
			}
		}
	}
	tally.VerifReportOnce(root)
	allocs := map[string]int{}
	handle := map[int64]string{}
	bucket := map[int64]string{}
	del := map[string]int64{}
	for _, e := range log.Snapshot() {
		switch e.K {
		case 11, 12, 13, 14:
			allocs[e.S[0]]++
			handle[e.I[0]] = e.S[0]
		case 24:
			bucket[e.I[3]] = handle[e.I[0]]
		case 21:
			del[handle[e.I[0]]] += e.I[1]
		case 23:
			del[handle[e.I[0]]]++
		case 26:
			del[bucket[e.I[0]]] += e.I[1]
		}
	}
	clean := strings.NewReplacer(" ", "_", "!", "_").Replace(dirty)
	if n := len(allocs); n != rounds {
		return fmt.Sprintf("%d first-use rounds on fresh names (%d goroutines each): Allocate was called for %d different names", rounds, G, n)
	}
	for r := 0; r < rounds; r++ {
		name := fmt.Sprintf("storm.m%d%s", r, clean)
		if san {
			name = fmt.Sprintf("storm_m%d%s", r, clean) // the separator is sanitized as well
		}
		if allocs[name] != 1 {
			return fmt.Sprintf("Allocate was called %d times for %q (first use by %d goroutines at once)", allocs[name], name, G)
		}
		if k := r % 4; k != 1 && del[name] != int64(G) {
			return fmt.Sprintf("%q: %d goroutines recorded once each through the handles they got, %d delivered", name, G, del[name])
		}
	}
	return ""
}
