package main

// C08: "Root Close is a complete ... shutdown barrier": everything recorded before Close is CALLED is
// delivered before Close returns - also what is recorded while a periodic pass is part-way through a
// scope (the reporter call of the pass is stalled; the yield points of the lock-step runs are between
// scopes, not inside one).  Real ticker; direct predicate.

import (
	"fmt"
	"io"
	"net"
	"os"
	"strings"
	"sync/atomic"
	"time"

	tally "github.com/uber-go/tally/v4"
)

// c08InFlight: the first counter delivery of a periodic pass stalls inside the reporter (for the root's
// own counter when which = 0, for a subscope's otherwise); while it is stalled every counter is
// incremented and Close is called; when the Close caller waits for the loop the reporter call is
// released.  When Close returns every increment must have been delivered.
func c08InFlight(cached, closerFlavour bool, which int) string {
	log := &Log{}
	entered, release := make(chan struct{}), make(chan struct{})
	var once int32
	stall := func(k int) {
		if (k == 1 || k == 21) && atomic.CompareAndSwapInt32(&once, 0, 1) {
			close(entered)
			<-release
		}
	}
	opts := tally.ScopeOptions{OmitCardinalityMetrics: true}
	switch {
	case cached && closerFlavour:
		opts.CachedReporter = &RecCachedCloser{RecCached: RecCached{L: log, Caps: caps{true, true}, OnCall: stall}}
	case cached:
		opts.CachedReporter = &RecCached{L: log, Caps: caps{true, true}, OnCall: stall}
	case closerFlavour:
		opts.Reporter = &RecCloser{RecReporter: RecReporter{L: log, Caps: caps{true, true}, OnCall: stall}}
	default:
		opts.Reporter = &RecReporter{L: log, Caps: caps{true, true}, OnCall: stall}
	}
	root, closer := tally.NewRootScope(opts, 2*time.Millisecond)
	const nobj = 3
	ctrs := make([]tally.Counter, nobj)
	ctrs[0] = root.Counter("c0")
	for i := 1; i < nobj; i++ {
		ctrs[i] = root.Tagged(map[string]string{"k": fmt.Sprint(i)}).Counter(fmt.Sprintf("c%d", i))
	}
	var applied [nobj]int64
	ctrs[which].Inc(1) // the only pending delta: the next pass's first counter delivery is this one
	applied[which]++
	select {
	case <-entered:
	case <-time.After(10 * time.Second):
		close(release)
		closer.Close()
		return "" // no periodic pass delivered the increment within 10 s: nothing to judge here
	}
	for i := range ctrs {
		ctrs[i].Inc(5) // recorded before Close is called, while the pass is inside the reporter
		applied[i] += 5
	}
	cd := make(chan struct{})
	var closerGid uint64
	go func() {
		atomic.StoreUint64(&closerGid, gid())
		closer.Close()
		close(cd)
	}()
	waitUntilParked(&closerGid, cd)
	close(release)
	<-cd
	var got [nobj]int64
	alloc := map[int64]string{}
	for _, e := range log.Snapshot() {
		var name string
		var v int64
		switch e.K {
		case 1:
			name, v = e.S[0], e.I[0]
		case 11:
			alloc[e.I[0]] = e.S[0]
			continue
		case 21:
			name, v = alloc[e.I[0]], e.I[1]
		default:
			continue
		}
		var o int
		if n, _ := fmt.Sscanf(name, "c%d", &o); n == 1 && o < nobj {
			got[o] += v
		}
	}
	for o := range got {
		if got[o] != applied[o] {
			where := "a subscope's counter"
			if which == 0 {
				where = "the root scope's own counter"
			}
			return fmt.Sprintf("real ticker: a periodic pass was stalled inside the reporter's delivery of %s; meanwhile every counter was incremented by 5 and Close was called; the delivery was released once the Close caller was waiting for the loop. When Close returned, counter c%d had %d recorded (all before Close was called) and %d delivered",
				where, o, applied[o], got[o])
		}
	}
	return ""
}

// c08AfterTestRoot: a reporter-less test root (NewTestScope) is closed; scopes obtained afterwards - from
// the root and from subscope handles obtained BEFORE the Close - must be inert: nothing recorded through
// them shows up in the root's Snapshot ("scopes obtained afterwards are inert"; "Close on a root created
// without an interval behaves the same").
func c08AfterTestRoot() (fail string) {
	defer func() {
		if p := recover(); p != nil {
			fail = fmt.Sprintf("panic after Close of a test root: %v", p)
		}
	}()
	root := tally.NewTestScope("p", map[string]string{"env": "t"})
	oldSub := root.SubScope("old")
	oldTag := root.Tagged(map[string]string{"k": "v"})
	oldSub.Counter("c").Inc(1)
	oldTag.Gauge("g").Update(2)
	if err := root.(interface{ Close() error }).Close(); err != nil {
		return fmt.Sprintf("Close of a test root returned %v", err)
	}
	keys := func() map[string]bool {
		m := map[string]bool{}
		s := root.Snapshot()
		for k := range s.Counters() {
			m["counter "+k] = true
		}
		for k := range s.Gauges() {
			m["gauge "+k] = true
		}
		for k := range s.Timers() {
			m["timer "+k] = true
		}
		for k := range s.Histograms() {
			m["histogram "+k] = true
		}
		return m
	}
	before := keys()
	derivs := []struct {
		what string
		f    func() tally.Scope
	}{
		{`root.SubScope("new")`, func() tally.Scope { return root.SubScope("new") }},
		{"root.Tagged({a:b})", func() tally.Scope { return root.Tagged(map[string]string{"a": "b"}) }},
		{`oldSub.SubScope("x") (oldSub was obtained before the Close)`, func() tally.Scope { return oldSub.SubScope("x") }},
		{"oldSub.Tagged({z:1})", func() tally.Scope { return oldSub.Tagged(map[string]string{"z": "1"}) }},
		{"oldTag.Tagged({k2:v2})", func() tally.Scope { return oldTag.Tagged(map[string]string{"k2": "v2"}) }},
		{`oldTag.SubScope("y")`, func() tally.Scope { return oldTag.SubScope("y") }},
	}
	for _, d := range derivs {
		s := d.f()
		s.Counter("late_c").Inc(1)
		s.Gauge("late_g").Update(1)
		s.Timer("late_t").Record(time.Millisecond)
		s.Histogram("late_h", tally.ValueBuckets{1}).RecordValue(1)
		for k := range keys() {
			if !before[k] {
				return fmt.Sprintf("test root (no reporter, no interval) closed; a scope obtained afterwards by %s is not inert: the root's snapshot now has the %s", d.what, k)
			}
		}
	}
	return ""
}

// c08Null: a root whose reporter is tally.NullStatsReporter ("metrics disabled"): Close is the same
// barrier - the reporting goroutine ends, scopes obtained afterwards are inert.
func c08Null(withInterval bool) string {
	var interval time.Duration
	if withInterval {
		interval = time.Millisecond
	}
	root, closer := tally.NewRootScope(tally.ScopeOptions{Reporter: tally.NullStatsReporter, OmitCardinalityMetrics: true}, interval)
	sub := root.SubScope("s")
	sub.Counter("c").Inc(1)
	if err := closer.Close(); err != nil {
		return fmt.Sprintf("Close of a root on NullStatsReporter returned %v", err)
	}
	if withInterval {
		if st := strings.Join(allStacksSplit(), "\n\n"); strings.Contains(st, "tally/v4.(*scope).reportLoop") {
			return "root on tally.NullStatsReporter with an interval: the reportLoop goroutine has not ended when Close returns"
		}
	}
	for what, sc := range map[string]tally.Scope{`root.SubScope("late")`: root.SubScope("late"), "root.Tagged({a:b})": root.Tagged(map[string]string{"a": "b"}),
		`sub.SubScope("x") (sub obtained before the Close)`: sub.SubScope("x"), "sub.Tagged({a:b})": sub.Tagged(map[string]string{"a": "b"})} {
		if sc != tally.NoopScope {
			return fmt.Sprintf("root on tally.NullStatsReporter closed; the scope obtained afterwards by %s is not the inert scope (tally.NoopScope) but a live one", what)
		}
	}
	if err := closer.Close(); err != nil {
		return fmt.Sprintf("a further Close returned %v", err)
	}
	return ""
}

// c08CloseErr: "if the reporter can be closed ... its error is returned": whatever error it is - also
// errors that say "already closed".
func c08CloseErr(cached bool, kind int) string {
	log := &Log{}
	var want error
	switch kind {
	case 0:
		want = os.ErrClosed
	case 1:
		want = fmt.Errorf("flush file: %w", os.ErrClosed)
	case 2:
		want = &net.OpError{Op: "close", Net: "udp", Err: net.ErrClosed}
	default:
		want = io.ErrClosedPipe
	}
	opts := tally.ScopeOptions{OmitCardinalityMetrics: true}
	if cached {
		opts.CachedReporter = &RecCachedCloser{RecCached: RecCached{L: log, Caps: caps{true, true}}, Err: want}
	} else {
		opts.Reporter = &RecCloser{RecReporter: RecReporter{L: log, Caps: caps{true, true}}, Err: want}
	}
	root, closer := tally.VerifNewRootScope(opts, 0, 2)
	root.Counter("c").Inc(1)
	got := closer.Close()
	if got != want {
		return fmt.Sprintf("the reporter's Close returned the error %q (%T); the root's Close returned %v", want, want, got)
	}
	n := 0
	for _, e := range log.Snapshot() {
		if e.K == 7 {
			n++
		}
	}
	if n != 1 {
		return fmt.Sprintf("the reporter's Close returned the error %q; the reporter was closed %d times (expected once)", want, n)
	}
	return ""
}

// c08SlowFinal: "Everything recorded before the root's Close is called has been delivered ... before
// Close returns", with a slow reporter: the first counter delivery of Close's own final pass takes
// 700 ms (the reporter sleeps: the slowness is part of the input, the verdict is on what was
// delivered); 64 tagged subscopes over the default number of registry shards plus the root, each with
// one counter incremented before Close; no periodic pass ever runs (interval 0 or one hour).
func c08SlowFinal(cached, hour bool) string {
	log := &Log{}
	var once int32
	slow := func(k int) {
		if (k == 1 || k == 21) && atomic.CompareAndSwapInt32(&once, 0, 1) {
			time.Sleep(700 * time.Millisecond)
		}
	}
	opts := tally.ScopeOptions{OmitCardinalityMetrics: true}
	if cached {
		opts.CachedReporter = &RecCached{L: log, Caps: caps{true, true}, OnCall: slow}
	} else {
		opts.Reporter = &RecReporter{L: log, Caps: caps{true, true}, OnCall: slow}
	}
	iv := time.Duration(0)
	if hour {
		iv = time.Hour
	}
	root, closer := tally.NewRootScope(opts, iv)
	const nsub = 64
	root.Counter("c0").Inc(1)
	for i := 1; i <= nsub; i++ {
		root.Tagged(map[string]string{"k": fmt.Sprint(i)}).Counter(fmt.Sprintf("c%d", i)).Inc(1)
	}
	closer.Close()
	got := map[string]int64{}
	alloc := map[int64]string{}
	for _, e := range log.Snapshot() {
		switch e.K {
		case 1:
			got[e.S[0]] += e.I[0]
		case 11:
			alloc[e.I[0]] = e.S[0]
		case 21:
			got[alloc[e.I[0]]] += e.I[1]
		}
	}
	missing := 0
	for i := 0; i <= nsub; i++ {
		if got[fmt.Sprintf("c%d", i)] != 1 {
			missing++
		}
	}
	if missing > 0 {
		return fmt.Sprintf("root with %d tagged subscopes (default shard count), one increment on each scope's counter, no periodic pass; Close called with a reporter whose first counter delivery takes 700 ms: when Close returned %d of the %d increments had not been delivered exactly once", nsub, missing, nsub+1)
	}
	return ""
}
