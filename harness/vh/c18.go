package main

// C18 — StatsD reporter (statsd/reporter.go): every report call results in
// exactly one call on the statsd client, under a deterministic stat name.
//
// The sink is a recording implementation of statsd.Statter.  The renderings of
// bucket bounds (fmt's "%.<p>f" and time.Duration.String()) are oracles of the
// Coq model: the harness computes them itself, checks the shape assumption the
// injectivity theorem rests on ('-' at most as the first byte, non-empty) on
// every one of them, and ships them with the case.
//
// Generator region: gauges are finite float64 values whose truncation fits an
// int64 (int64(value) is implementation-specific elsewhere); sample rates are
// the unset rate and float32 values in (0,1]; precisions are unset and 1..12;
// histogram specifications contain no NaN and never both +0 and -0 (sort order
// of such specifications is not part of this property).

import (
	"encoding/json"
	"errors"
	"fmt"
	"math"
	"math/big"
	"strings"
	"sync"
	"time"

	cstatsd "github.com/cactus/go-statsd-client/v5/statsd"
	tally "github.com/uber-go/tally/v4"
	tstatsd "github.com/uber-go/tally/v4/statsd"
)

type c18Op struct {
	// 1 counter, 2 gauge, 3 timer, 4 value samples, 5 duration samples, 6 flush,
	// 7 capabilities, 8 / 9 all buckets of a value / duration histogram with
	// specification Spec (pairs from tally.BucketPairs), samples V+i in bucket i
	K    int     `json:"k"`
	Name B       `json:"name,omitempty"`
	Tags map[B]B `json:"tags,omitempty"`
	V    int64   `json:"v,omitempty"` // int64 value / float64 bits / ns / samples
	Lo   int64   `json:"lo,omitempty"`
	Hi   int64   `json:"hi,omitempty"`
	Spec []int64 `json:"spec,omitempty"` // float64 bits or ns
	BNil bool    `json:"bnil,omitempty"` // pass nil as the Buckets argument
}
type c18Case struct {
	Rate uint32  `json:"rate"` // Options.SampleRate as float32 bits (0 = unset)
	Prec uint    `json:"prec"` // Options.HistogramBucketNamePrecision (0 = unset)
	Ops  []c18Op `json:"ops"`
	// what the recording client returns from its methods after recording the call:
	// 0 nil, 1 always an error, 2 an error from every second call, 3 an error
	// for certain (stat, value) pairs.  "Exactly one call on the underlying
	// client" holds whatever the client returns.
	Err int `json:"err,omitempty"`
	// concurrent stream (c18conc.go): when set, Ops is empty and the calls are
	// regenerated from Conc.Seed
	Conc *c18Conc `json:"conc,omitempty"`
}

// ---- recording statsd.Statter ----
// (safe for concurrent use: the concurrent stream of c18conc.go calls it from several goroutines)
type c18Statter struct {
	mu  sync.Mutex
	log []Ev
	err int // error mode (c18Case.Err)
	n   int
}

var errC18Client = errors.New("recording statsd client: injected error (the call was recorded)")

func (s *c18Statter) rec(m int, name string, v int64, rate float32, tags []cstatsd.Tag, extra ...string) error {
	s.mu.Lock()
	defer s.mu.Unlock()
	s.log = append(s.log, Ev{K: m, I: []int64{v, int64(math.Float32bits(rate)), int64(len(tags))}, S: append([]string{name}, extra...)})
	s.n++
	switch s.err {
	case 1:
		return errC18Client
	case 2:
		if s.n%2 == 1 {
			return errC18Client
		}
	case 3:
		h := uint64(v)
		for i := 0; i < len(name); i++ {
			h = h*31 + uint64(name[i])
		}
		if h%3 != 0 {
			return errC18Client
		}
	}
	return nil
}
func (s *c18Statter) Inc(n string, v int64, r float32, t ...cstatsd.Tag) error {
	return s.rec(1, n, v, r, t)
}
func (s *c18Statter) Gauge(n string, v int64, r float32, t ...cstatsd.Tag) error {
	return s.rec(2, n, v, r, t)
}
func (s *c18Statter) TimingDuration(n string, d time.Duration, r float32, t ...cstatsd.Tag) error {
	return s.rec(3, n, int64(d), r, t)
}
func (s *c18Statter) Dec(n string, v int64, r float32, t ...cstatsd.Tag) error {
	return s.rec(14, n, v, r, t)
}
func (s *c18Statter) GaugeDelta(n string, v int64, r float32, t ...cstatsd.Tag) error {
	return s.rec(15, n, v, r, t)
}
func (s *c18Statter) Timing(n string, v int64, r float32, t ...cstatsd.Tag) error {
	return s.rec(16, n, v, r, t)
}
func (s *c18Statter) Set(n string, v string, r float32, t ...cstatsd.Tag) error {
	return s.rec(17, n, 0, r, t, v)
}
func (s *c18Statter) SetInt(n string, v int64, r float32, t ...cstatsd.Tag) error {
	return s.rec(18, n, v, r, t)
}
func (s *c18Statter) Raw(n string, v string, r float32, t ...cstatsd.Tag) error {
	return s.rec(19, n, 0, r, t, v)
}
func (s *c18Statter) NewSubStatter(p string) cstatsd.SubStatter {
	s.rec(20, p, 0, 0, nil)
	return nil
}
func (s *c18Statter) SetPrefix(p string) { s.rec(21, p, 0, 0, nil) }
func (s *c18Statter) Close() error       { return s.rec(22, "", 0, 0, nil) }

// ---- generator ----
var c18Rates = []float32{1, 0.5, 0.1, 0.25, 0.001, 0.999999, math.SmallestNonzeroFloat32, 1e-20, 0.3333333}

var c18Gauges = []float64{0, math.Copysign(0, -1), 0.5, -0.5, 1, -1, 2.5, -2.5, 0.9999999999999999, -0.9999999999999999,
	1e15 + 0.5, -1e15 - 0.5, 1 << 53, 1<<53 + 2, 1 << 62, -(1 << 62), -9223372036854775808.0,
	math.Float64frombits(0x43DFFFFFFFFFFFFF), -math.Float64frombits(0x43DFFFFFFFFFFFFF),
	math.SmallestNonzeroFloat64, -math.SmallestNonzeroFloat64, 123456.789, -123456.789, 4503599627370495.5, 2.2250738585072014e-308, 3.999999999999999, 1e18, -7.9e18}

func c18GaugeOK(v float64) bool {
	return !math.IsNaN(v) && !math.IsInf(v, 0) && (math.Abs(v) < 9223372036854775808.0 || v == -9223372036854775808.0)
}
func c18Gauge(r *Rng) float64 {
	if r.Chance(50) {
		return c18Gauges[r.Intn(len(c18Gauges))]
	}
	for {
		// random sign, exponent spread over the whole finite in-range region, random mantissa
		e := uint64(r.Range(0, 1023+62))
		if r.Chance(60) {
			e = uint64(r.Range(1023-4, 1023+62))
		}
		b := uint64(r.Intn(2))<<63 | e<<52 | r.U64()&(1<<52-1)
		if v := math.Float64frombits(b); c18GaugeOK(v) {
			return v
		}
	}
}

// value bounds: a mix that collides at low precision, extreme values, arbitrary bits
var c18Bounds = []float64{0, 1, 2, 5, 10, 100, -1, -2.5, 0.1, 0.12, 0.123, 0.1234567, 0.12345678, 1e-7, 2e-7, 3e-7, 4e-13, 5e-13, 6e-13,
	-1e-7, -2e-7, 1.5, 1.25, 1.125, 1.0000001, 1.00000012, 1e6, 1e9, 123456789.125, -1e12, 1e22, 1e100, -1e100,
	math.MaxFloat64, -math.MaxFloat64, math.Float64frombits(0x7FEFFFFFFFFFFFFE), math.SmallestNonzeroFloat64, 0.5, 0.05, 0.005, 0.0005, 2.675, 1.005}

func c18Bound(r *Rng, allowNaN bool) float64 {
	switch x := r.Intn(100); {
	case x < 70:
		return c18Bounds[r.Intn(len(c18Bounds))]
	case x < 80:
		return float64(r.Range(-50, 50)) / float64([]int{1, 2, 4, 10, 1000, 1000000, 10000000}[r.Intn(7)])
	case x < 84:
		return math.Inf(1 - 2*r.Intn(2))
	case x < 88 && allowNaN:
		return []float64{math.NaN(), math.Float64frombits(0xFFF8000000000001)}[r.Intn(2)]
	default:
		for {
			e := uint64(r.Range(1023-40, 1023+70))
			if r.Chance(10) {
				e = uint64(r.Range(0, 2046))
			}
			v := math.Float64frombits(uint64(r.Intn(2))<<63 | e<<52 | r.U64()&(1<<52-1))
			if allowNaN || !math.IsNaN(v) {
				return v
			}
		}
	}
}

var c18Durs = []int64{0, 1, -1, 999, 1000, 1001, 1500, 1000000, 1500000, 1000000000, 60000000000, 61000000000, 3600000000000, 3661000000001,
	-1000000, -60000000000, math.MaxInt64, math.MinInt64, math.MaxInt64 - 1, math.MinInt64 + 1, 10000000, 25000000, 50000000, 75000000, 100000000}

func c18Dur(r *Rng) int64 {
	switch x := r.Intn(100); {
	case x < 65:
		return c18Durs[r.Intn(len(c18Durs))]
	case x < 85:
		return int64(r.Range(-20, 200)) * []int64{1, 1000, 1000000, 1000000000, 60000000000}[r.Intn(5)]
	default:
		return int64(r.U64())
	}
}

// Names are arbitrary byte strings ("all names" in the property's quantifier; the statsd
// reporter applies no sanitizer): besides ordinary names the alphabet holds every character
// that is significant to something the name passes through or sits next to - printf verbs and
// flags ('%', digits, '[', ']', '*', '!', '(' ...), the separators of the stat name itself
// ('.', '-'), the statsd wire format (':', '|', '@', '#', ','), quoting/escaping characters,
// control bytes and invalid UTF-8.
var c18Names = []string{"h", "requests", "a.b", "a-b", "x.1-2", "", "-", ".", "é", "\xff\xfe", "lat.infinity-", "n.-infinity-0.000000", "long-name-0123456789.with.dots",
	"disk.%used", "cpu_%", "rpc.100%done", "%", "%%", "%s", "%s.%s-%s", "%d", "%v%v%v", "%[1]s", "%[3]*.[2]*[1]f", "%!s(MISSING)", "%-5s|", "%.2f", "100%", "a%20b", "%!", "%x-%q",
	"a:1|c", "n|@0.5", "#tag:v", "a,b=c", "a b", "tab\there", "nl\nx", "nul\x00x", "\\", "{name}", "${name}", "$1", "`x`", "'q'", "\"q\"", "*", "(x)", "[0]", "a/b", "~", "^$", "+Inf", "NaN"}

const c18Alphabet = "%%%sdvfqxT[]*!().-+ #0123456789:|@,=\\/{}$`'\"<>&;?^~_aZ\x00\t\n\r\x7f\x80\xc3\xa9\xff"

// lengths of long names: around every power of two / round size a fixed buffer, a length
// byte or a datagram budget could have ("all names": nothing bounds the length of a name)
var c18Lengths = []int{64, 100, 110, 120, 126, 127, 128, 129, 200, 255, 256, 257, 300, 511, 512, 513, 1000, 1024, 1500}

func c18LongName(r *Rng) B {
	n := c18Lengths[r.Intn(len(c18Lengths))]
	if r.Chance(25) {
		n += r.Range(-3, 3)
	}
	b := make([]byte, 0, n+32)
	for len(b) < n {
		switch r.Intn(4) {
		case 0:
			b = append(b, c18Names[r.Intn(len(c18Names))]...)
		case 1:
			b = append(b, c18Alphabet[r.Intn(len(c18Alphabet))])
		default:
			b = append(b, []string{"service", "component", "endpoint", "latency", "bytes", "eu-west-1", "v2", "0123456789"}[r.Intn(8)]...)
		}
		if r.Chance(60) {
			b = append(b, '.')
		}
	}
	return B(b[:n])
}

func c18Name(r *Rng) B {
	switch x := r.Intn(100); {
	case x < 50:
		return B(c18Names[r.Intn(len(c18Names))])
	case x < 78:
		n := r.Range(1, 10)
		b := make([]byte, n)
		for i := range b {
			b[i] = c18Alphabet[r.Intn(len(c18Alphabet))]
		}
		return B(b)
	case x < 83:
		// arbitrary bytes
		n := r.Range(1, 6)
		b := make([]byte, n)
		for i := range b {
			b[i] = byte(r.Intn(256))
		}
		return B(b)
	case x < 91:
		return c18LongName(r)
	}
	return B(r.Str())
}

func c18Gen(r *Rng, i int) c18Case {
	c := c18Case{}
	switch x := r.Intn(10); {
	case x < 3: // unset
	case x < 8:
		c.Rate = math.Float32bits(c18Rates[r.Intn(len(c18Rates))])
	default:
		// random float32 in (0,1]
		f := float32(r.U64()>>40+1) / float32(1<<24)
		c.Rate = math.Float32bits(f)
	}
	if !r.Chance(25) {
		c.Prec = uint(r.Range(1, 12))
	}
	if i%16 == 0 { // make sure the four option classes all occur early
		c.Rate, c.Prec = 0, 0
	}
	if r.Chance(40) { // the client returns errors (always / alternating / for certain stats)
		c.Err = r.Range(1, 3)
	}
	nops := r.Range(1, 7)
	for j := 0; j < nops; j++ {
		o := c18Op{Name: c18Name(r), Tags: r.Tags(3)}
		switch x := r.Intn(100); {
		case x < 12:
			o.K, o.V = 1, r.I64()
		case x < 27:
			o.K, o.V = 2, fbits(c18Gauge(r))
		case x < 37:
			o.K, o.V = 3, r.I64()
			if r.Bool() {
				o.V = c18Dur(r)
			}
		case x < 47:
			o.K, o.Lo, o.Hi, o.V = 4, fbits(c18Bound(r, true)), fbits(c18Bound(r, true)), r.I64()
			o.BNil = r.Bool()
		case x < 57:
			o.K, o.Lo, o.Hi, o.V = 5, c18Dur(r), c18Dur(r), r.I64()
			o.BNil = r.Bool()
		case x < 61:
			o = c18Op{K: 6}
		case x < 65:
			o = c18Op{K: 7}
		case x < 83:
			o.K, o.V = 8, r.I64()
			n := r.Intn(7)
			if r.Chance(15) {
				n = r.Range(7, 14)
			}
			zero := fbits(math.Copysign(0, float64(1-2*r.Intn(2))))
			for q := 0; q < n; q++ {
				b := fbits(c18Bound(r, false))
				if b == 0 || uint64(b) == 1<<63 {
					b = zero
				}
				o.Spec = append(o.Spec, b)
			}
			if n > 1 && r.Chance(15) { // duplicate bound
				o.Spec[0] = o.Spec[n-1]
			}
			o.BNil = r.Chance(20)
		default:
			o.K, o.V = 9, r.I64()
			n := r.Intn(7)
			for q := 0; q < n; q++ {
				o.Spec = append(o.Spec, c18Dur(r))
			}
			if n > 1 && r.Chance(15) {
				o.Spec[0] = o.Spec[n-1]
			}
			o.BNil = r.Chance(20)
		}
		c.Ops = append(c.Ops, o)
	}
	return c
}

// ---- driver + direct predicate ----

// c18Shape: the tested shape assumption on a rendering.
func c18Shape(s string) bool { return len(s) > 0 && !strings.Contains(s[1:], "-") }

// truncation toward zero, computed exactly and independently of int64(float64)
func c18Trunc(v float64) int64 {
	z, _ := new(big.Float).SetFloat64(v).Int(nil) // Int truncates toward zero
	return z.Int64()
}

type c18Result struct {
	in, obs   []Ev
	pred      string // failed direct predicate ("" = none)
	fail      string
	shapeFail string
	reports   int
}

func c18Run(c *c18Case) (res c18Result) {
	st := &c18Statter{err: c.Err}
	rep := tstatsd.NewReporter(st, tstatsd.Options{SampleRate: math.Float32frombits(c.Rate), HistogramBucketNamePrecision: c.Prec})

	wantRate := int64(c.Rate)
	if math.Float32frombits(c.Rate) == 0 {
		wantRate = int64(math.Float32bits(1.0))
	}
	prec := int(c.Prec)
	if prec == 0 {
		prec = 6
	}

	var oracle, ops []Ev
	seen := map[string]bool{}
	shape := func(what, s string) {
		if !c18Shape(s) && res.shapeFail == "" {
			res.shapeFail = fmt.Sprintf("%s rendered as %q: '-' occurs after the first byte or the rendering is empty", what, s)
		}
	}
	// renderings as the property words them; every oracle rendering is recorded
	rv := func(bits int64) string {
		f := math.Float64frombits(uint64(bits))
		if f == math.MaxFloat64 {
			return "infinity"
		}
		if f == -math.MaxFloat64 {
			return "-infinity"
		}
		s := fmt.Sprintf("%.*f", prec, f)
		if k := fmt.Sprintf("f%d", bits); !seen[k] {
			seen[k] = true
			oracle = append(oracle, Ev{K: 50, I: []int64{int64(prec), bits}, F: 2, S: []string{s}})
			shape(fmt.Sprintf("float64 bits %#x at precision %d", uint64(bits), prec), s)
		}
		return s
	}
	rd := func(d int64) string {
		if d == math.MaxInt64 {
			return "infinity"
		}
		if d == math.MinInt64 {
			return "-infinity"
		}
		s := time.Duration(d).String()
		if k := fmt.Sprintf("d%d", d); !seen[k] {
			seen[k] = true
			oracle = append(oracle, Ev{K: 51, I: []int64{d}, S: []string{s}})
			shape(fmt.Sprintf("duration %d", d), s)
		}
		return s
	}
	setFail := func(pred, f string, a ...interface{}) {
		if res.fail == "" {
			res.pred, res.fail = pred, fmt.Sprintf(f, a...)
		}
	}
	// expect exactly one new client call equal to want
	expectOne := func(before int, what string, want Ev) (string, bool) {
		res.reports++
		got := st.log[before:]
		if len(got) != 1 {
			setFail("exactly_one_client_call_per_report", "%s resulted in %d client calls (%v), expected exactly one", what, len(got), got)
			return "", false
		}
		if got[0].Term() != want.Term() {
			setFail("client_call_has_method_name_value_rate_no_tags", "%s resulted in client call %v, expected %v", what, got[0], want)
		}
		return got[0].S[0], true
	}
	call := func(k int, name string, v, rate int64) Ev {
		return Ev{K: k, I: []int64{v, rate, 0}, S: []string{name}}
	}
	valueSamples := func(o *c18Op, b tally.Buckets, lo, hi, n int64) (string, bool) {
		before := len(st.log)
		name, tg := string(o.Name), tagsOf(o.Tags)
		rep.ReportHistogramValueSamples(name, tg, b, math.Float64frombits(uint64(lo)), math.Float64frombits(uint64(hi)), n)
		ops = append(ops, Ev{K: 4, I: []int64{lo, hi, n}, F: 3, S: nameTags(name, tg)})
		return expectOne(before, fmt.Sprintf("ReportHistogramValueSamples(%q, [%#x, %#x], %d)", name, uint64(lo), uint64(hi), n),
			call(1, name+"."+rv(lo)+"-"+rv(hi), n, wantRate))
	}
	durationSamples := func(o *c18Op, b tally.Buckets, lo, hi, n int64) (string, bool) {
		before := len(st.log)
		name, tg := string(o.Name), tagsOf(o.Tags)
		rep.ReportHistogramDurationSamples(name, tg, b, time.Duration(lo), time.Duration(hi), n)
		ops = append(ops, Ev{K: 5, I: []int64{lo, hi, n}, S: nameTags(name, tg)})
		return expectOne(before, fmt.Sprintf("ReportHistogramDurationSamples(%q, [%d, %d], %d)", name, lo, hi, n),
			call(1, name+"."+rd(lo)+"-"+rd(hi), n, wantRate))
	}

	for i := range c.Ops {
		o := &c.Ops[i]
		name, tg := string(o.Name), tagsOf(o.Tags)
		before := len(st.log)
		switch o.K {
		case 1:
			rep.ReportCounter(name, tg, o.V)
			ops = append(ops, Ev{K: 1, I: []int64{o.V}, S: nameTags(name, tg)})
			expectOne(before, fmt.Sprintf("ReportCounter(%q, %d)", name, o.V), call(1, name, o.V, wantRate))
		case 2:
			v := math.Float64frombits(uint64(o.V))
			if !c18GaugeOK(v) {
				// outside the region where int64(value) is defined: not part of the property
				continue
			}
			rep.ReportGauge(name, tg, v)
			ops = append(ops, Ev{K: 2, I: []int64{o.V}, F: 1, S: nameTags(name, tg)})
			expectOne(before, fmt.Sprintf("ReportGauge(%q, %v)", name, v), call(2, name, c18Trunc(v), wantRate))
		case 3:
			rep.ReportTimer(name, tg, time.Duration(o.V))
			ops = append(ops, Ev{K: 3, I: []int64{o.V}, S: nameTags(name, tg)})
			expectOne(before, fmt.Sprintf("ReportTimer(%q, %d)", name, o.V), call(3, name, o.V, wantRate))
		case 4:
			var b tally.Buckets
			if !o.BNil {
				b = tally.ValueBuckets{math.Float64frombits(uint64(o.Hi))}
			}
			valueSamples(o, b, o.Lo, o.Hi, o.V)
		case 5:
			var b tally.Buckets
			if !o.BNil {
				b = tally.DurationBuckets{time.Duration(o.Hi)}
			}
			durationSamples(o, b, o.Lo, o.Hi, o.V)
		case 6:
			rep.Flush()
			ops = append(ops, Ev{K: 6})
			if n := len(st.log) - before; n != 0 {
				setFail("flush_makes_no_client_call", "Flush resulted in %d client calls", n)
			}
		case 7:
			cp := rep.Capabilities()
			r, t := cp.Reporting(), cp.Tagging()
			ops = append(ops, Ev{K: 7})
			if n := len(st.log) - before; n != 0 {
				setFail("capabilities_makes_no_client_call", "Capabilities resulted in %d client calls", n)
			}
			st.log = append(st.log, Ev{K: 99, I: []int64{b2i(r), b2i(t)}})
			if !r || t {
				setFail("capabilities_reporting_without_tagging", "Capabilities: reporting=%v tagging=%v, expected true/false", r, t)
			}
		case 8, 9:
			var spec tally.Buckets
			if o.K == 8 {
				vb := make(tally.ValueBuckets, len(o.Spec))
				for q, b := range o.Spec {
					vb[q] = math.Float64frombits(uint64(b))
				}
				spec = vb
			} else {
				db := make(tally.DurationBuckets, len(o.Spec))
				for q, d := range o.Spec {
					db[q] = time.Duration(d)
				}
				spec = db
			}
			pairs := tally.BucketPairs(spec)
			if len(o.Spec) <= 30 {
				m := Ev{K: 40, I: append([]int64{int64(o.K - 8)}, o.Spec...)}
				if o.K == 8 {
					m.F = (1<<uint(len(o.Spec)) - 1) << 1
				}
				ops = append(ops, m)
			}
			arg := spec
			if o.BNil {
				arg = nil
			}
			type seenB struct {
				rlo, rhi, name string
				ok             bool
			}
			var bs []seenB
			for q, p := range pairs {
				n := o.V + int64(q)
				var s seenB
				if o.K == 8 {
					lo, hi := fbits(p.LowerBoundValue()), fbits(p.UpperBoundValue())
					s.rlo, s.rhi = rv(lo), rv(hi)
					s.name, s.ok = valueSamples(o, arg, lo, hi, n)
				} else {
					lo, hi := int64(p.LowerBoundDuration()), int64(p.UpperBoundDuration())
					s.rlo, s.rhi = rd(lo), rd(hi)
					s.name, s.ok = durationSamples(o, arg, lo, hi, n)
				}
				bs = append(bs, s)
			}
			// distinct buckets of one histogram whose renderings differ never share a stat name
			for a := 0; a < len(bs); a++ {
				for b := a + 1; b < len(bs); b++ {
					x, y := bs[a], bs[b]
					if x.ok && y.ok && (x.rlo != y.rlo || x.rhi != y.rhi) && x.name == y.name {
						setFail("buckets_with_different_renderings_have_different_stat_names",
							"histogram %q: buckets %d (%s, %s) and %d (%s, %s) share the stat name %q", name, a, x.rlo, x.rhi, b, y.rlo, y.rhi, x.name)
					}
				}
			}
		}
	}
	res.in = append(oracle, ops...)
	res.obs = st.log
	return
}

func c18Class(c *c18Case) string {
	r, p := "set", "set"
	if c.Rate == 0 {
		r = "unset"
	}
	if c.Prec == 0 {
		p = "unset"
	}
	h := "nohist"
	for _, o := range c.Ops {
		if o.K == 8 || o.K == 9 {
			h = "hist"
		}
	}
	e := "client-ok"
	if c.Err != 0 {
		e = "client-errors"
	}
	return fmt.Sprintf("rate=%s/prec=%s/%s/%s", r, p, h, e)
}

func init() {
	props["C18"] = func(ctx *Ctx) {
		ctx.Header("StatsdCorr")
		ctx.Res.Rule = "case = (sample rate option, precision option, what the recording client returns (nil / errors), sequence of calls on the statsd reporter; a histogram call expands to one samples call per bucket pair of tally.BucketPairs); generated from the seed; non-trivial = at least one report call reached the client path; distinct by hash of the case; plus a concurrent stream: 2..8 goroutines make such calls on ONE reporter at the same time (uncontrolled schedule), the multiset of client calls must be the expected one"
		renderings := 0
		one := func(c *c18Case) {
			if c.Conc != nil {
				c18ConcOne(ctx, c)
				return
			}
			res := c18Run(c)
			key := ""
			if res.reports > 0 {
				key = hashOf(c)
			}
			for _, e := range res.in {
				if e.K == 50 || e.K == 51 {
					renderings++
				}
			}
			idx := ctx.Res.Evaluations
			ctx.Case(c, gcase(idx, []int64{int64(c.Rate), int64(c.Prec), int64(c.Err)}, res.in, res.obs), c18Class(c), key)
			if res.fail != "" {
				ctx.Fail(res.pred, res.fail, c, res.obs)
			}
			if res.shapeFail != "" {
				ctx.Fail("rendering_shape_assumption", res.shapeFail, c, nil)
			}
		}
		defer func() { ctx.Res.Extra["renderings_checked_for_shape"] = renderings }()
		if ctx.Replay != nil {
			var c c18Case
			if err := json.Unmarshal(ctx.Replay, &c); err != nil {
				fatal(err)
			}
			one(&c)
			return
		}
		for _, raw := range ctx.CorpusCases() {
			var c c18Case
			if json.Unmarshal(raw, &c) == nil {
				one(&c)
			}
		}
		n := ctx.N(500, 12000)
		for i := 0; i < n; i++ {
			c := c18Gen(ctx.R, i)
			one(&c)
		}
		c18ConcStream(ctx)
	}
}
