package main

// Registry scenarios shared by C07 (closing a subscope), C08 (root Close) and
// C09 (concurrent first use): application goroutines obtaining tagged
// subscopes by spelling, recording, closing; reporting goroutines running
// report passes; optionally root Close callers — all under the schedule
// controller, through the public API.

import (
	"encoding/json"
	"fmt"
	"os"
	"sort"
	"sync"

	tally "github.com/uber-go/tally/v4"
)

type regOp struct {
	Op string `json:"op"` // get | inc | close
	K  int    `json:"k,omitempty"`
}

type regCase struct {
	Cached bool      `json:"cached"`
	Shards int       `json:"shards"`
	San    bool      `json:"san"`   // sanitizer (alphanumeric + '_') configured
	Spell  []B       `json:"spell"` // tag values; key number = index + 1 (0 is the root's key)
	Progs  [][]regOp `json:"progs"`
	Passes []int     `json:"passes"`
	Sched  []int     `json:"sched"`
	// CtrYields: the yield points inside counter.value (1, 2, 3) take part too, so that a report
	// triggered by re-requesting a closed scope can overlap a pass inside one counter (C01); such
	// runs are checked by the direct predicate only
	CtrYields bool `json:"ctr_yields,omitempty"`
	// Gauges: every "inc" also updates a gauge of the scope to a value unique to (object, number of
	// the update), and the run is judged on the gauge deliveries as well (C02)
	Gauges bool `json:"gauges,omitempty"`
}

type regObj struct {
	ID        string `json:"-"`
	Spell     int    `json:"first_spelling"`
	Applied   int64  `json:"applied"`
	AtClose   int64  `json:"applied_when_close_was_called"`
	Closed    bool   `json:"closed"`
	Delivered int64  `json:"delivered"`
}

type regOut struct {
	Labels         []int64  `json:"labels"`
	Choices        []int64  `json:"choices"` // key number visited at a label-31 step, else -1
	Sched          []int    `json:"sched"`
	Objs           []regObj `json:"objects"`     // object 0 is the root
	Gets           []int64  `json:"get_results"` // object index returned by each completed get, in completion order
	Live           []string `json:"-"`
	Panic          string   `json:"panic,omitempty"`
	ClosedReturned string   `json:"closed_scope_returned,omitempty"`
	Mixed          string   `json:"scope_shared_by_identities,omitempty"`
	WrongTags      string   `json:"wrong_tags,omitempty"`
	Blocked        int      `json:"blocked_steps"`
	Ambiguous      bool     `json:"ambiguous,omitempty"` // two goroutines were blocked at once: executed order not determined
	GaugeFail      string   `json:"gauge_fail,omitempty"`
}

var regSanOpts = &tally.SanitizeOptions{
	NameCharacters:       tally.ValidCharacters{Ranges: tally.AlphanumericRange, Characters: tally.UnderscoreCharacters},
	KeyCharacters:        tally.ValidCharacters{Ranges: tally.AlphanumericRange, Characters: tally.UnderscoreCharacters},
	ValueCharacters:      tally.ValidCharacters{Ranges: tally.AlphanumericRange, Characters: tally.UnderscoreCharacters},
	ReplacementCharacter: '_',
}

// regSanTable returns, per spelling, the key number of its sanitized spelling
// (the index+1 of the first spelling that sanitizes to the same value, or a
// fresh number beyond the table when the sanitized form is not itself listed).
func regSanTable(c *regCase) []int64 {
	out := make([]int64, len(c.Spell))
	var s tally.Sanitizer = tally.NewNoOpSanitizer()
	if c.San {
		s = tally.NewSanitizer(*regSanOpts)
	}
	next := int64(len(c.Spell) + 1)
	fresh := map[string]int64{}
	for i, sp := range c.Spell {
		sv := s.Value(string(sp))
		found := int64(-1)
		for j, sp2 := range c.Spell {
			if string(sp2) == sv {
				found = int64(j + 1)
				break
			}
		}
		if found < 0 {
			if f, ok := fresh[sv]; ok {
				found = f
			} else {
				found = next
				fresh[sv] = next
				next++
			}
		}
		out[i] = found
	}
	return out
}

type regRun struct {
	c      *regCase
	log    *Log
	root   tally.Scope
	closer interface{ Close() error }
	ctl    *Ctl
	mu     sync.Mutex
	objIdx map[string]int
	out    regOut
	keyNum map[string]int64
	note   map[uint64]int64 // goroutine id -> key number of the last visited entry
	last   []int            // last label per thread
	sanTab []int64          // key number of the sanitized form of each spelling
	keep   []tally.Scope    // every scope the API returned stays referenced for the whole run: identities are
	// addresses, and the address of a dropped scope must not be handed to a new one by the allocator
}

func (r *regRun) objOf(s tally.Scope, spell int) int {
	id := tally.VerifScopeID(s)
	r.mu.Lock()
	defer r.mu.Unlock()
	if i, ok := r.objIdx[id]; ok {
		return i
	}
	i := len(r.out.Objs)
	r.objIdx[id] = i
	r.keep = append(r.keep, s)
	r.out.Objs = append(r.out.Objs, regObj{ID: id, Spell: spell})
	return i
}

func newRegRun(c *regCase) *regRun {
	r := &regRun{c: c, log: &Log{}, objIdx: map[string]int{}, keyNum: map[string]int64{}, note: map[uint64]int64{}}
	opts := tally.ScopeOptions{OmitCardinalityMetrics: true}
	if c.San {
		opts.SanitizeOptions = regSanOpts
	}
	if c.Cached {
		opts.CachedReporter = &RecCached{L: r.log, Caps: caps{true, true}}
	} else {
		opts.Reporter = &RecReporter{L: r.log, Caps: caps{true, true}}
	}
	shards := c.Shards
	if shards <= 0 {
		shards = 1
	}
	r.root, r.closer = tally.VerifNewRootScope(opts, 0, uint(shards))
	r.objOf(r.root, -1)
	// key strings of every spelling (raw) and of its sanitized form
	r.keyNum[tally.KeyForPrefixedStringMap("", nil)] = 0
	tab := regSanTable(c)
	r.sanTab = tab
	var s tally.Sanitizer = tally.NewNoOpSanitizer()
	if c.San {
		s = tally.NewSanitizer(*regSanOpts)
	}
	for i, sp := range c.Spell {
		r.keyNum[tally.KeyForPrefixedStringMap("", map[string]string{"k": string(sp)})] = int64(i + 1)
		r.keyNum[tally.KeyForPrefixedStringMap("", map[string]string{"k": s.Value(string(sp))})] = tab[i]
	}
	r.ctl = NewCtl()
	return r
}

// app returns the body of an application goroutine.
func (r *regRun) app(prog []regOp) func() {
	return func() {
		var cur tally.Scope
		curObj := -1
		for i, o := range prog {
			if i > 0 {
				r.ctl.Yield(0)
			}
			switch o.Op {
			case "get":
				r.mu.Lock()
				closedBefore := map[string]bool{}
				for _, ob := range r.out.Objs {
					if ob.Closed {
						closedBefore[ob.ID] = true
					}
				}
				r.mu.Unlock()
				cur = r.root.Tagged(map[string]string{"k": string(r.c.Spell[o.K])})
				curObj = r.objOf(cur, o.K)
				r.mu.Lock()
				r.out.Gets = append(r.out.Gets, int64(curObj))
				if first := r.out.Objs[curObj].Spell; first >= 0 && r.sanTab[first] != r.sanTab[o.K] && r.out.Mixed == "" {
					r.out.Mixed = fmt.Sprintf("object %d was returned for spelling %q and for spelling %q, which are different identities", curObj, string(r.c.Spell[first]), string(r.c.Spell[o.K]))
				}
				if closedBefore[r.out.Objs[curObj].ID] && r.out.ClosedReturned == "" {
					r.out.ClosedReturned = fmt.Sprintf("requesting spelling %q returned object %d, whose Close had been called before the request", string(r.c.Spell[o.K]), curObj)
				}
				r.mu.Unlock()
			case "inc":
				if cur != nil {
					cur.Counter(fmt.Sprintf("c%d", curObj)).Inc(1)
					r.mu.Lock()
					r.out.Objs[curObj].Applied++
					nth := r.out.Objs[curObj].Applied
					r.mu.Unlock()
					if r.c.Gauges {
						cur.Gauge(fmt.Sprintf("g%d", curObj)).Update(float64(1000*int64(curObj) + nth))
					}
				}
			case "close":
				if cur != nil {
					r.mu.Lock()
					if !r.out.Objs[curObj].Closed {
						r.out.Objs[curObj].Closed = true
						r.out.Objs[curObj].AtClose = r.out.Objs[curObj].Applied
					}
					r.mu.Unlock()
					if cl, ok := cur.(interface{ Close() error }); ok {
						cl.Close()
					}
				}
			}
		}
	}
}

func (r *regRun) passes(n int) func() {
	return func() {
		for i := 0; i < n; i++ {
			if i > 0 {
				r.ctl.Yield(0)
			}
			tally.VerifReportOnce(r.root)
		}
	}
}

func (r *regRun) install() {
	// only the registry's yield points take part; the yields inside
	// counter.value, the gauge and the metric getters pass through
	tally.VerifSetYield(func(p int) {
		if p == 0 || (p >= 31 && p <= 45) || (r.c.CtrYields && p >= 1 && p <= 3) {
			r.ctl.Yield(p)
		}
	})
	tally.VerifSetNote(func(p int, key string) {
		n, ok := r.keyNum[key]
		if !ok {
			n = -2
		}
		r.mu.Lock()
		r.note[gid()] = n
		r.mu.Unlock()
	})
}
func (r *regRun) uninstall() {
	setYield(nil)
	tally.VerifSetNote((func(int, string))(nil))
}

// holdsR: parked at this label the goroutine holds the shard's read lock;
// wantsW: its next action is to take the write lock. The controller never
// resumes a goroutine that would block (such a pick is a stutter), so that the
// executed order is fully determined by the schedule. Writers never park while
// holding the write lock (there is no yield point inside those regions).
func holdsR(l int) bool {
	// 1, 2, 3 (inside counter.value) are only parked at in runs with CtrYields: the goroutine is
	// inside a report and holds the shard's lock
	return l == 31 || l == 32 || l == 34 || l == 35 || l == 41 || l == 44 || (l >= 1 && l <= 3)
}
func wantsW(l int) bool { return l == 33 || l == 45 }

func (r *regRun) enabled(i int) bool {
	if r.ctl.Done(i) {
		return false
	}
	if i < len(r.last) && wantsW(r.last[i]) {
		for j, l := range r.last {
			if j != i && holdsR(l) && !r.ctl.Done(j) {
				return false
			}
		}
	}
	return true
}

// step resumes thread i if it is enabled; records the label reached and, for
// a label-31 step, the registry key visited. Returns false for a stutter.
func (r *regRun) step(i int) bool {
	for len(r.last) <= i {
		r.last = append(r.last, 0)
	}
	if !r.enabled(i) {
		return false
	}
	l := r.ctl.Step(i)
	if l == Stutter {
		return false
	}
	if l == Blocked && r.c.CtrYields {
		// a goroutine parked inside counter.value may hold the shard's write lock (report of a closed
		// scope found under the sanitized key) or the scope's metric lock: the pick is a stutter, the
		// goroutine goes on by itself once the holder has moved
		r.out.Blocked++
		return false
	}
	if l == Blocked {
		// not expected: the enabledness rule above should rule it out
		r.out.Blocked++
		r.out.Ambiguous = true
		for guard := 0; guard < 2000 && l == Blocked; guard++ {
			l = r.ctl.Step(i)
		}
	}
	r.last[i] = l
	r.record(i, l)
	return true
}

func (r *regRun) record(i, l int) {
	r.out.Labels = append(r.out.Labels, int64(l))
	r.out.Sched = append(r.out.Sched, i)
	ch := int64(-1)
	if l == 31 {
		r.mu.Lock()
		for _, v := range r.note {
			ch = v
		}
		r.note = map[uint64]int64{}
		r.mu.Unlock()
	}
	r.out.Choices = append(r.out.Choices, ch)
}

// collect attributes delivered counter values to objects by counter name.
func (r *regRun) collect() {
	alloc := map[int64]string{}
	del := map[string]int64{}
	for _, e := range r.log.Snapshot() {
		if (e.K == 1 || e.K == 11) && len(e.S) >= 3 {
			// the tag delivered with counter c<obj> must be the sanitized spelling the object was created for
			var oi int
			if _, err := fmt.Sscanf(e.S[0], "c%d", &oi); err == nil && oi > 0 && oi < len(r.out.Objs) && r.out.Objs[oi].Spell >= 0 {
				want := string(r.c.Spell[r.out.Objs[oi].Spell])
				if r.c.San {
					want = tally.NewSanitizer(*regSanOpts).Value(want)
				}
				if (e.S[1] != "k" || e.S[2] != want) && r.out.WrongTags == "" {
					r.out.WrongTags = fmt.Sprintf("counter of object %d was delivered with tags %q, expected k=%q", oi, e.S[1:], want)
				}
			}
		}
		switch e.K {
		case 1:
			del[e.S[0]] += e.I[0]
		case 11:
			alloc[e.I[0]] = e.S[0]
		case 21:
			del[alloc[e.I[0]]] += e.I[1]
		}
	}
	for i := range r.out.Objs {
		r.out.Objs[i].Delivered = del[fmt.Sprintf("c%d", i)]
	}
	if r.c.Gauges {
		// gauge g<obj> was updated to 1000*obj + n by the n-th "inc" through the object: a closed
		// object must have delivered its last update before Close was called or a later one, a
		// live one its last update as the most recent delivery (a complete pass has just run)
		got := c02Delivered(r.log)
		for i, o := range r.out.Objs {
			if i == 0 || o.Applied == 0 || r.out.GaugeFail != "" {
				continue
			}
			vs := got[fmt.Sprintf("g%d", i)]
			if o.Closed {
				if o.AtClose == 0 {
					continue
				}
				ok := false
				for _, v := range vs {
					if v >= float64(1000*int64(i)+o.AtClose) {
						ok = true
					}
				}
				if !ok {
					r.out.GaugeFail = fmt.Sprintf("object %d (closed): its gauge was updated to %d before Close was called; neither that value nor a later one was ever delivered (deliveries %v)", i, 1000*int64(i)+o.AtClose, vs)
				}
			} else if len(vs) == 0 || vs[len(vs)-1] != float64(1000*int64(i)+o.Applied) {
				r.out.GaugeFail = fmt.Sprintf("object %d (live, returned by the API): the last update of its gauge was %d; deliveries after a complete report pass: %v", i, 1000*int64(i)+o.Applied, vs)
			}
		}
	}
	live := map[string]bool{}
	for _, e := range tally.VerifRegistryDump(r.root) {
		if !e.Closed {
			live[e.Scope] = true
		}
	}
	for id := range live {
		r.out.Live = append(r.out.Live, id)
	}
	sort.Strings(r.out.Live)
}

// regPredicate is C07's direct predicate on the final observables (after a
// final complete report pass with the root still open).
func regPredicate(out *regOut) string {
	if out.Panic != "" {
		return "panic: " + out.Panic
	}
	if out.Mixed != "" {
		return out.Mixed + " (different identities never share a scope)"
	}
	if out.WrongTags != "" {
		return out.WrongTags
	}
	if out.ClosedReturned != "" {
		return out.ClosedReturned + " (a scope obtained after Close must be functional)"
	}
	if out.GaugeFail != "" {
		return out.GaugeFail
	}
	live := map[string]bool{}
	for _, id := range out.Live {
		live[id] = true
	}
	for i, o := range out.Objs {
		if i == 0 {
			continue
		}
		if o.Delivered > o.Applied {
			return fmt.Sprintf("object %d: %d delivered, only %d recorded (something delivered twice)", i, o.Delivered, o.Applied)
		}
		if o.Closed {
			if o.Delivered < o.AtClose {
				return fmt.Sprintf("object %d (closed): %d increments were recorded before Close was called, only %d delivered", i, o.AtClose, o.Delivered)
			}
		} else {
			if o.Delivered != o.Applied {
				return fmt.Sprintf("object %d (live, returned by the API): %d recorded, %d delivered after a complete report pass", i, o.Applied, o.Delivered)
			}
			if !live[o.ID] {
				return fmt.Sprintf("object %d is live and was returned by the API but is no longer registered", i)
			}
		}
	}
	return out.GaugeFail
}

// regCrossStream runs registry scenarios (obtain / record / Close / obtain again interleaved
// with report passes under the schedule controller) for properties whose statement also has
// to survive such cycles: identities must keep their own scope, tags and deliveries (C04, C05).
// Direct predicate only.
func regCrossStream(ctx *Ctx, n int, pred string) { regCrossStreamG(ctx, n, pred, false) }

// regCrossStreamG: the same with a gauge per scope when gauges is set (C02).
func regCrossStreamG(ctx *Ctx, n int, pred string, gauges bool) {
	for k := 0; k < n; k++ {
		rc := c07Gen(ctx.R, ctx.Thorough())
		rc.Gauges = gauges
		if k%4 == 3 {
			rc.Shards = []int{2, 16}[ctx.R.Intn(2)]
		}
		out, _ := c07Exec(&rc, true)
		fail := regPredicate(&out)
		cc := rc
		cc.Sched = out.Sched
		ctx.Case(cc, "", "registry-cycles-under-schedule", "")
		if fail != "" {
			ctx.Fail(pred, "registry cycles: "+fail, cc, out)
		}
	}
}

// regReplay re-runs one registry scenario stored in a replay file.
func regReplay(ctx *Ctx, pred string) {
	var rc regCase
	if err := json.Unmarshal(ctx.Replay, &rc); err != nil {
		fatal(err)
	}
	out, _ := c07Exec(&rc, true)
	if os.Getenv("VH_DEBUG") != "" {
		b, _ := json.Marshal(out)
		fmt.Fprintln(os.Stderr, string(b))
	}
	ctx.Case(rc, "", "registry-cycles-under-schedule", "")
	if fail := regPredicate(&out); fail != "" {
		ctx.Fail(pred, "registry cycles: "+fail, rc, out)
	}
}
