package main

// C11, stream "storm": overlapping Snapshot() calls on one quiescent test scope tree.
//
// Property text: "a snapshot contains one entry per metric ... whose counter value is the
// sum of increments ..." for "snapshots taken at arbitrary points, also concurrently" - here
// concurrently with OTHER snapshots: nothing is being recorded, so every single snapshot,
// whichever goroutine takes it and whichever scope of the tree it is taken through, must
// equal the reference tally exactly (same keys, same values).
//
// Uncontrolled stress stream (CONTRIBUTING.md): a fixed number of rounds, the goroutines
// meet at a spin barrier before every round so that their walks overlap; the verdict is
// the direct predicate only, never elapsed time.

import (
	"fmt"
	"runtime"
	"sync"
	"sync/atomic"

	tally "github.com/uber-go/tally/v4"
)

func c11StormGen(r *Rng, i int) c11Case {
	c := c11Case{Stream: "storm", Shards: []int{1, 2, 16, 0}[i%4], Prefix: B(r.Pick(c11Prefixes)), Tags: c11GenTags(r, 1),
		Workers: r.Range(2, 4), PerW: r.Range(12, 24)}
	n := r.Range(64, 192)
	for j := 0; j < n; j++ {
		var p []c11Step
		id := B(fmt.Sprintf("%d", j%(n/2+1)))
		switch r.Intn(4) {
		case 0:
			p = []c11Step{{N: "s" + id}}
		case 1:
			p = []c11Step{{T: true, M: map[B]B{"t": id}}}
		case 2:
			p = []c11Step{{N: B(r.Pick([]string{"a", "b"}))}, {T: true, M: map[B]B{"t": id}}}
		default:
			p = []c11Step{{T: true, M: map[B]B{B(r.Pick(c11Keys)): id}}, {N: "s" + id}}
		}
		switch x := r.Intn(10); {
		case x < 7:
			c.Ops = append(c.Ops, c11Op{Op: "inc", P: p, N: "c", V: int64(j + 1)})
		case x < 8:
			c.Ops = append(c.Ops, c11Op{Op: "upd", P: p, N: "g", V: fbits(float64(j))})
		case x < 9:
			c.Ops = append(c.Ops, c11Op{Op: "rec", P: p, N: "t", V: int64(j)})
		default:
			c.Ops = append(c.Ops, c11Op{Op: "hv", P: p, N: "h", V: fbits(float64(j % 3)), Spec: []int64{fbits(1), fbits(2)}})
		}
	}
	if r.Chance(50) { // a closed subscope stays part of the tree
		c.Ops = append(c.Ops, c11Op{Op: "close", P: c.Ops[r.Intn(len(c.Ops))].P})
	}
	return c
}

func c11Storm(ctx *Ctx, c *c11Case) {
	ts := c11NewScope(c)
	rootTags := tagsOf(c.Tags)
	if rootTags == nil {
		rootTags = map[string]string{}
	}
	rf := &c11Ref{root: c11ID{string(c.Prefix), rootTags}, closed: map[string]bool{}, ents: map[string]*c11Ent{}}
	// receivers: the test scope itself and a few scopes derived from it (live paths only)
	recv := []tally.TestScope{ts}
	for i := range c.Ops {
		o := &c.Ops[i]
		sc := c11Exec(ts, o)
		rf.apply(o)
		if t, ok := sc.(tally.TestScope); ok && sc != tally.NoopScope && len(recv) < 4 && i%17 == 3 {
			recv = append(recv, t)
		}
	}
	want := rf.expected()
	var (
		mu      sync.Mutex
		fail    string
		wg      sync.WaitGroup
		arrived = make([]atomic.Int32, c.PerW)
	)
	for w := 0; w < c.Workers; w++ {
		wg.Add(1)
		go func(w int) {
			defer wg.Done()
			defer func() {
				if p := recover(); p != nil {
					mu.Lock()
					if fail == "" {
						fail = fmt.Sprintf("goroutine %d panicked: %v", w, p)
					}
					mu.Unlock()
				}
			}()
			for it := 0; it < c.PerW; it++ {
				arrived[it].Add(1)
				for arrived[it].Load() < int32(c.Workers) {
					runtime.Gosched()
				}
				s := recv[(w+it)%len(recv)].Snapshot()
				got, keyErr := c11Project(s)
				d := keyErr
				if d == "" {
					d = c11Diff(got, want)
				}
				if d != "" {
					mu.Lock()
					if fail == "" {
						fail = fmt.Sprintf("%d goroutines take snapshots of a quiescent tree of %d metrics at the same time; round %d, goroutine %d: %s",
							c.Workers, len(want), it, w, d)
					}
					mu.Unlock()
				}
			}
		}(w)
	}
	wg.Wait()
	ctx.Case(c, "", fmt.Sprintf("storm/shards=%d/goroutines=%d", c.Shards, c.Workers), "storm/"+hashOf(c))
	if fail != "" {
		ctx.Fail("overlapping_snapshots_each_equal_reference_tally", fail, c, nil)
	}
}
