package main

import (
	"sort"
	"encoding/json"
	"fmt"
	"math"
	"sync"
	"sync/atomic"
	"time"

	tally "github.com/uber-go/tally/v4"
	"github.com/uber-go/tally/v4/multi"
)

type c19Op struct {
	Op   string            `json:"op"` // plain | alloc | rep | bucket | samples
	K    int               `json:"k"`
	Name B                 `json:"name,omitempty"`
	Tags map[B]B           `json:"tags,omitempty"`
	V    int64             `json:"v,omitempty"`
	H    int               `json:"h,omitempty"`
	Lo   int64             `json:"lo,omitempty"`
	Hi   int64             `json:"hi,omitempty"`
	B    []int64           `json:"b,omitempty"` // bucket bounds (float bits or ns)
	BDur bool              `json:"bdur,omitempty"`
	BNil bool              `json:"bnil,omitempty"`
}
type c19Case struct {
	Cached bool      `json:"cached"`
	Caps   [][2]bool `json:"caps"` // one entry per leaf (recording reporter), in call order
	Ops    []c19Op   `json:"ops"`
	// Groups, when set, nests the leaves: entry g >= 0 is a nested multi reporter over the next g
	// leaves, -1 a leaf given directly (a multi reporter is itself a reporter: "each child" then
	// reaches every leaf once, in order)
	Groups []int `json:"groups,omitempty"`
}

// incl. the values around which the zigzag varint of the Compact protocol grows by a byte
var interestingI64 = []int64{0, 1, -1, 2, 7, 100, math.MaxInt64, math.MinInt64, math.MaxInt64 - 1, 1 << 32, -(1 << 40),
	63, 64, -64, -65, 8191, 8192, -8192, -8193, 1<<20 - 1, 1 << 20, -(1 << 20), -(1 << 20) - 1, 1<<27 - 1, 1 << 27, 1<<34 - 1, 1 << 34}
var interestingF64 = []float64{0, math.Copysign(0, -1), 1, -1, 0.5, 1e300, -1e300, math.MaxFloat64, -math.MaxFloat64,
	math.SmallestNonzeroFloat64, math.Inf(1), math.Inf(-1), math.NaN(), math.Float64frombits(0x7ff8000000000123), 3.141592653589793}

func (r *Rng) I64() int64 {
	if r.Chance(60) {
		return interestingI64[r.Intn(len(interestingI64))]
	}
	return int64(r.U64())
}
func (r *Rng) F64() float64 {
	if r.Chance(60) {
		return interestingF64[r.Intn(len(interestingF64))]
	}
	return math.Float64frombits(r.U64())
}

var alphaSmall = []string{"a", "b", "c", "x_y", "", "é", "\xff", "k1", "host", "a.b", "long-name-0123456789"}

func (r *Rng) Str() string { return alphaSmall[r.Intn(len(alphaSmall))] }
func (r *Rng) Tags(max int) map[B]B {
	n := r.Intn(max + 1)
	if n == 0 && r.Bool() {
		return nil
	}
	m := map[B]B{}
	for i := 0; i < n; i++ {
		m[B(r.Str())] = B(r.Str())
	}
	return m
}

func mkBuckets(o c19Op) tally.Buckets {
	if o.BNil {
		return nil
	}
	if o.BDur {
		d := make(tally.DurationBuckets, len(o.B))
		for i, v := range o.B {
			d[i] = time.Duration(v)
		}
		return d
	}
	v := make(tally.ValueBuckets, len(o.B))
	for i, b := range o.B {
		v[i] = math.Float64frombits(uint64(b))
	}
	return v
}

func c19Gen(r *Rng, i int) c19Case {
	c := c19Case{Cached: i%2 == 1}
	n := r.Intn(6)
	if i < 4 {
		n = 0 // the empty multi reporter, both flavours
	}
	for j := 0; j < n; j++ {
		c.Caps = append(c.Caps, [2]bool{r.Chance(75), r.Chance(75)})
	}
	if i >= 4 && i%3 == 0 && n > 0 {
		// nested multi reporters in every position, with 0, 1 or more leaves
		left := n
		for left > 0 {
			switch g := r.Intn(4); {
			case g == 0:
				c.Groups = append(c.Groups, -1)
				left--
			case g == 1 && r.Chance(30):
				c.Groups = append(c.Groups, 0)
			default:
				k := r.Range(1, left)
				c.Groups = append(c.Groups, k)
				left -= k
			}
		}
	}
	nops := r.Range(1, 24)
	nh, nb := 0, 0
	var histH []int
	for j := 0; j < nops; j++ {
		if !c.Cached {
			k := r.Range(1, 6)
			o := c19Op{Op: "plain", K: k, Name: B(r.Str()), Tags: r.Tags(3)}
			switch k {
			case 1, 3:
				o.V = r.I64()
			case 2:
				o.V = fbits(r.F64())
			case 4:
				o.Lo, o.Hi, o.V = fbits(r.F64()), fbits(r.F64()), r.I64()
				o.B = []int64{fbits(r.F64()), fbits(r.F64())}
				o.BNil = r.Chance(20)
			case 5:
				o.Lo, o.Hi, o.V = r.I64(), r.I64(), r.I64()
				o.B, o.BDur = []int64{r.I64()}, true
			case 6:
				o.Name, o.Tags = "", nil
			}
			c.Ops = append(c.Ops, o)
			continue
		}
		switch x := r.Intn(10); {
		case x < 3 || nh == 0:
			k := r.Range(11, 14)
			o := c19Op{Op: "alloc", K: k, Name: B(r.Str()), Tags: r.Tags(3)}
			// "forwards every call to every child": also an allocation that repeats an earlier one
			// (same kind, name and tags), or whose tags are an earlier allocation's with two of them
			// run together into one value ("k1": "v1,k2=v2") - a different identity
			if nh > 0 && r.Chance(30) {
				var prev []c19Op
				for _, q := range c.Ops {
					if q.Op == "alloc" {
						prev = append(prev, q)
					}
				}
				q := prev[r.Intn(len(prev))]
				k, o.K, o.Name = q.K, q.K, q.Name
				o.Tags = map[B]B{}
				var ks []string
				for tk, tv := range q.Tags {
					o.Tags[tk] = tv
					ks = append(ks, string(tk))
				}
				if q.Tags == nil {
					o.Tags = nil
				}
				if len(ks) >= 2 && r.Bool() {
					sort.Strings(ks)
					a, b := ks[0], ks[1]
					o.Tags[B(a)] = B(string(q.Tags[B(a)]) + "," + b + "=" + string(q.Tags[B(b)]))
					delete(o.Tags, B(b))
				}
				if k == 14 {
					o.B, o.BDur = q.B, q.BDur
					histH = append(histH, nh)
					nh++
					c.Ops = append(c.Ops, o)
					continue
				}
			}
			if k == 14 {
				if r.Bool() {
					o.B, o.BDur = []int64{r.I64(), r.I64()}, true
				} else {
					o.B = []int64{fbits(r.F64())}
				}
				histH = append(histH, nh)
			}
			nh++
			c.Ops = append(c.Ops, o)
		case x < 6:
			h := r.Intn(nh)
			c.Ops = append(c.Ops, c19Op{Op: "rep", K: 0, H: h, V: r.I64()})
		case x < 8 && len(histH) > 0:
			h := histH[r.Intn(len(histH))]
			k := 24 + r.Intn(2)
			c.Ops = append(c.Ops, c19Op{Op: "bucket", K: k, H: h, Lo: r.I64(), Hi: r.I64()})
			nb++
		case x < 9 && nb > 0:
			c.Ops = append(c.Ops, c19Op{Op: "samples", H: r.Intn(nb), V: r.I64()})
		default:
			c.Ops = append(c.Ops, c19Op{Op: "plain", K: 6})
		}
	}
	return c
}

// c19Run drives the real multi reporter; returns the Coq ops term, the observed
// global child log, the observed capabilities and a predicate failure ("" = ok).
func c19Run(c *c19Case) (in []Ev, glog []Ev, oc [2]bool, fail string) {
	log := &Log{}
	// "a multi reporter with no children accepts all calls": a panic of the library is a failing input
	defer func() {
		if p := recover(); p != nil {
			glog = log.Snapshot()
			fail = fmt.Sprintf("a call on the multi reporter (%d children, %d calls made so far) panicked: %v", len(c.Caps), len(in), p)
		}
	}()
	n := len(c.Caps)
	var expect []Ev // what each child must see, in order (direct predicate)
	if !c.Cached {
		kids := make([]tally.StatsReporter, n)
		for i := range kids {
			kids[i] = &RecReporter{L: log, Src: i, Caps: caps{c.Caps[i][0], c.Caps[i][1]}}
		}
		top := kids
		if c.Groups != nil {
			top = nil
			at := 0
			for _, g := range c.Groups {
				if g < 0 {
					top = append(top, kids[at])
					at++
				} else {
					top = append(top, multi.NewMultiReporter(kids[at:at+g]...))
					at += g
				}
			}
		}
		m := multi.NewMultiReporter(top...)
		for _, o := range c.Ops {
			var e Ev
			switch o.K {
			case 1:
				m.ReportCounter(string(o.Name), tagsOf(o.Tags), o.V)
				e = Ev{K: 1, I: []int64{o.V}, S: nameTags(string(o.Name), tagsOf(o.Tags))}
			case 2:
				m.ReportGauge(string(o.Name), tagsOf(o.Tags), math.Float64frombits(uint64(o.V)))
				e = Ev{K: 2, I: []int64{o.V}, F: 1, S: nameTags(string(o.Name), tagsOf(o.Tags))}
			case 3:
				m.ReportTimer(string(o.Name), tagsOf(o.Tags), time.Duration(o.V))
				e = Ev{K: 3, I: []int64{o.V}, S: nameTags(string(o.Name), tagsOf(o.Tags))}
			case 4:
				b := mkBuckets(o)
				m.ReportHistogramValueSamples(string(o.Name), tagsOf(o.Tags), b, math.Float64frombits(uint64(o.Lo)), math.Float64frombits(uint64(o.Hi)), o.V)
				bi, bf := bucketInts(b)
				e = Ev{K: 4, I: append([]int64{o.Lo, o.Hi, o.V}, bi...), F: 3 | bf<<3, S: nameTags(string(o.Name), tagsOf(o.Tags))}
			case 5:
				b := mkBuckets(o)
				m.ReportHistogramDurationSamples(string(o.Name), tagsOf(o.Tags), b, time.Duration(o.Lo), time.Duration(o.Hi), o.V)
				bi, bf := bucketInts(b)
				e = Ev{K: 5, I: append([]int64{o.Lo, o.Hi, o.V}, bi...), F: bf << 3, S: nameTags(string(o.Name), tagsOf(o.Tags))}
			case 6:
				m.Flush()
				e = Ev{K: 6}
			}
			in = append(in, e)
			expect = append(expect, e)
		}
		cp := m.Capabilities()
		oc = [2]bool{cp.Reporting(), cp.Tagging()}
	} else {
		kids := make([]tally.CachedStatsReporter, n)
		for i := range kids {
			kids[i] = &RecCached{L: log, Src: i, Caps: caps{c.Caps[i][0], c.Caps[i][1]}}
		}
		top := kids
		if c.Groups != nil {
			top = nil
			at := 0
			for _, g := range c.Groups {
				if g < 0 {
					top = append(top, kids[at])
					at++
				} else {
					top = append(top, multi.NewMultiCachedReporter(kids[at:at+g]...))
					at += g
				}
			}
		}
		m := multi.NewMultiCachedReporter(top...)
		type handle struct {
			k int
			c tally.CachedCount
			g tally.CachedGauge
			t tally.CachedTimer
			h tally.CachedHistogram
		}
		var hs []handle
		var bs []tally.CachedHistogramBucket
		for _, o := range c.Ops {
			switch o.Op {
			case "plain":
				m.Flush()
				in = append(in, Ev{K: 6})
				expect = append(expect, Ev{K: 6})
			case "alloc":
				id := int64(len(hs))
				e := Ev{K: o.K, I: []int64{id}, S: nameTags(string(o.Name), tagsOf(o.Tags))}
				args := Ev{}
				switch o.K {
				case 11:
					hs = append(hs, handle{k: 11, c: m.AllocateCounter(string(o.Name), tagsOf(o.Tags))})
				case 12:
					hs = append(hs, handle{k: 12, g: m.AllocateGauge(string(o.Name), tagsOf(o.Tags))})
				case 13:
					hs = append(hs, handle{k: 13, t: m.AllocateTimer(string(o.Name), tagsOf(o.Tags))})
				case 14:
					b := mkBuckets(o)
					hs = append(hs, handle{k: 14, h: m.AllocateHistogram(string(o.Name), tagsOf(o.Tags), b)})
					bi, bf := bucketInts(b)
					e.I = append(e.I, bi...)
					e.F = bf << 1
					args = Ev{I: bi, F: bf}
				}
				in = append(in, Ev{K: o.K, I: args.I, F: args.F, S: e.S})
				expect = append(expect, e)
			case "rep":
				h := hs[o.H]
				switch h.k {
				case 11:
					h.c.ReportCount(o.V)
					in = append(in, Ev{K: 21, I: []int64{int64(o.H), o.V}})
					expect = append(expect, Ev{K: 21, I: []int64{int64(o.H), o.V}})
				case 12:
					h.g.ReportGauge(math.Float64frombits(uint64(o.V)))
					in = append(in, Ev{K: 22, I: []int64{int64(o.H), o.V}, F: 2})
					expect = append(expect, Ev{K: 22, I: []int64{int64(o.H), o.V}, F: 2})
				case 13:
					h.t.ReportTimer(time.Duration(o.V))
					in = append(in, Ev{K: 23, I: []int64{int64(o.H), o.V}})
					expect = append(expect, Ev{K: 23, I: []int64{int64(o.H), o.V}})
				case 14:
					// a report on a histogram handle is not part of the interface: skip
					in = append(in, Ev{K: 6})
					m.Flush()
					expect = append(expect, Ev{K: 6})
				}
			case "bucket":
				h := hs[o.H]
				id := int64(len(bs))
				if o.K == 24 {
					bs = append(bs, h.h.ValueBucket(math.Float64frombits(uint64(o.Lo)), math.Float64frombits(uint64(o.Hi))))
					in = append(in, Ev{K: 24, I: []int64{int64(o.H), o.Lo, o.Hi}, F: 6})
					expect = append(expect, Ev{K: 24, I: []int64{int64(o.H), o.Lo, o.Hi, id}, F: 6})
				} else {
					bs = append(bs, h.h.DurationBucket(time.Duration(o.Lo), time.Duration(o.Hi)))
					in = append(in, Ev{K: 25, I: []int64{int64(o.H), o.Lo, o.Hi}})
					expect = append(expect, Ev{K: 25, I: []int64{int64(o.H), o.Lo, o.Hi, id}})
				}
			case "samples":
				bs[o.H].ReportSamples(o.V)
				in = append(in, Ev{K: 26, I: []int64{int64(o.H), o.V}})
				expect = append(expect, Ev{K: 26, I: []int64{int64(o.H), o.V}})
			}
		}
		cp := m.Capabilities()
		oc = [2]bool{cp.Reporting(), cp.Tagging()}
	}
	glog = log.Snapshot()
	// direct predicate: for each call in order, that same call on child 0..n-1
	if len(glog) != len(expect)*n {
		fail = fmt.Sprintf("children saw %d calls for %d calls on the multi reporter with %d children", len(glog), len(expect), n)
	} else {
		for j, e := range expect {
			for i := 0; i < n && fail == ""; i++ {
				g := glog[j*n+i]
				e.Src = i
				if g.Src != i || g.Term() != e.Term() {
					fail = fmt.Sprintf("call %d: child position %d saw %v, expected %v", j, i, g, e)
				}
			}
		}
	}
	wr, wt := true, true
	for _, cp := range c.Caps {
		wr, wt = wr && cp[0], wt && cp[1]
	}
	if fail == "" && (oc[0] != wr || oc[1] != wt) {
		fail = fmt.Sprintf("capabilities %v, expected conjunction (%v,%v)", oc, wr, wt)
	}
	return
}

func b2i(b bool) int64 {
	if b {
		return 1
	}
	return 0
}

func c19Term(idx int, c *c19Case, in []Ev, glog []Ev, oc [2]bool) string {
	var par []int64
	for _, p := range c.Caps {
		par = append(par, b2i(p[0]), b2i(p[1]))
	}
	obs := make([]Ev, 0, len(glog)+1)
	for _, g := range glog {
		obs = append(obs, g.WithSrc())
	}
	obs = append(obs, Ev{K: 99, I: []int64{b2i(oc[0]), b2i(oc[1])}})
	return gcase(idx, par, in, obs)
}

func init() {
	props["C19"] = func(ctx *Ctx) {
		ctx.Header("MultiCorr")
		ctx.Res.Rule = "case = (flavour, children capabilities, call history on the multi reporter); generated from the seed; non-trivial = at least one child and at least one forwarded call; distinct by (flavour, child count, history hash)"
		one := func(c *c19Case) {
			in, glog, oc, fail := c19Run(c)
			cls := fmt.Sprintf("%s/children=%d", map[bool]string{false: "plain", true: "cached"}[c.Cached], len(c.Caps))
			if c.Groups != nil {
				cls += "/nested"
			}
			key := ""
			if len(c.Caps) > 0 && len(glog) > 0 {
				key = hashOf(c)
			}
			idx := ctx.Res.Evaluations
			ctx.Case(c, c19Term(idx, c, in, glog, oc), cls, key)
			if fail != "" {
				ctx.Fail("every_child_sees_every_call_once_in_order", fail, c, glog)
			}
		}
		if ctx.Replay != nil {
			var sp struct {
				Stream   string `json:"stream"`
				Children int    `json:"children"`
				Bad      int    `json:"panicking_child"`
				Gauge    bool   `json:"gauge"`
				Cached   bool   `json:"cached"`
				Flushes  int    `json:"flushes"`
				Held     int    `json:"held_in_child"`
				Pos      int    `json:"incapable_child"`
				After    int    `json:"children_after"`
			}
			if json.Unmarshal(ctx.Replay, &sp) == nil && sp.Stream != "" {
				ctx.Case(sp, "", sp.Stream, "")
				switch sp.Stream {
				case "child-panics-then-more-calls":
					if f := c19AfterPanic(sp.Children, sp.Bad, sp.Gauge); f != "" {
						ctx.Fail("every_child_sees_every_call_once_in_order", f, sp, nil)
					}
				case "overlapping-flush":
					if got, f := c19Overlap(sp.Cached, sp.Children, sp.Flushes, sp.Held); f != "" {
						ctx.Fail("every_flush_reaches_every_child_once", f, sp, got)
					}
				case "first-calls-at-once":
					if f := c19FirstCalls(sp.Cached, 3000); f != "" {
						ctx.Fail("every_flush_reaches_every_child_once", f, sp, nil)
					}
				case "child-listed-twice":
					if f := c19Dup(sp.Pos); f != "" {
						ctx.Fail("every_child_sees_every_call_once_in_order", f, sp, nil)
					}
				case "capabilities-evaluated-concurrently":
					for k := 0; k < 5; k++ {
						if f := c19Caps(sp.Cached, sp.Pos, sp.After); f != "" {
							ctx.Fail("capabilities_are_the_conjunction", f, sp, nil)
							break
						}
					}
				}
				return
			}
			var c c19Case
			if err := json.Unmarshal(ctx.Replay, &c); err != nil {
				fatal(err)
			}
			one(&c)
			return
		}
		for _, raw := range ctx.CorpusCases() {
			var c c19Case
			if json.Unmarshal(raw, &c) == nil {
				one(&c)
			}
		}
		n := ctx.N(400, 10000)
		for i := 0; i < n; i++ {
			c := c19Gen(ctx.R, i)
			one(&c)
		}
		// a child panics in an allocation, the caller recovers, the multi reporter is used further
		for k := 0; k < 12; k++ {
			nk, bad, gauge := 1+k%4, (k/2)%(1+k%4), k%2 == 1
			cs := map[string]interface{}{"stream": "child-panics-then-more-calls", "children": nk, "panicking_child": bad, "gauge": gauge}
			ctx.Case(cs, "", "child-panics-then-more-calls", "")
			if f := c19AfterPanic(nk, bad, gauge); f != "" {
				ctx.Fail("every_child_sees_every_call_once_in_order", f, cs, nil)
			}
		}
		// the first Flush / Capabilities calls on a new multi reporter, from four goroutines at once
		for k := 0; k < 2; k++ {
			cs := map[string]interface{}{"stream": "first-calls-at-once", "cached": k == 1}
			ctx.Case(cs, "", "first-calls-at-once", "")
			if f := c19FirstCalls(k == 1, ctx.N(1500, 10000)); f != "" {
				ctx.Fail("every_flush_reaches_every_child_once", f, cs, nil)
			}
		}
		// one reporter listed twice, children that are equal values
		for k := 0; k < 3; k++ {
			cs := map[string]interface{}{"stream": "child-listed-twice", "incapable_child": k}
			ctx.Case(cs, "", "child-listed-twice", "")
			if f := c19Dup(k); f != "" {
				ctx.Fail("every_child_sees_every_call_once_in_order", f, cs, nil)
			}
		}
		// Capabilities() while another goroutine evaluates it, and from several goroutines at once
		for k := 0; k < 8; k++ {
			cs := map[string]interface{}{"stream": "capabilities-evaluated-concurrently", "cached": k%2 == 1, "incapable_child": k / 2 % 3, "children_after": k / 4}
			ctx.Case(cs, "", "capabilities-evaluated-concurrently", "")
			if f := c19Caps(k%2 == 1, k/2%3, k/4); f != "" {
				ctx.Fail("capabilities_are_the_conjunction", f, cs, nil)
			}
		}
		// "every flush results in exactly one call on each child" also when flushes overlap: the first
		// Flush is held inside a child while further goroutines flush; every child must have been
		// flushed once per Flush call when all have returned (direct predicate; counts only)
		for i := 0; i < ctx.N(24, 200); i++ {
			cached := i%2 == 1
			nk := ctx.R.Range(1, 4)
			nf := ctx.R.Range(2, 4)
			hold := ctx.R.Intn(nk)
			got, what := c19Overlap(cached, nk, nf, hold)
			c := map[string]interface{}{"stream": "overlapping-flush", "cached": cached, "children": nk, "flushes": nf, "held_in_child": hold}
			ctx.Case(c, "", "overlapping-flush/"+map[bool]string{false: "plain", true: "cached"}[cached], fmt.Sprintf("ov/%v/%d/%d/%d", cached, nk, nf, hold))
			if what != "" {
				ctx.Fail("every_flush_reaches_every_child_once", what, c, got)
			}
		}
	}
}

// c19PanicChild: a child that panics in one allocation (as a reporter with a panicking error callback
// does); the caller recovers and goes on: every later call must still reach every child once, in order
type c19Panicky struct {
	*RecCached
	on string
}

func (p *c19Panicky) AllocateCounter(name string, tags map[string]string) tally.CachedCount {
	if name == p.on {
		panic("child refuses " + name)
	}
	return p.RecCached.AllocateCounter(name, tags)
}
func (p *c19Panicky) AllocateGauge(name string, tags map[string]string) tally.CachedGauge {
	if name == p.on {
		panic("child refuses " + name)
	}
	return p.RecCached.AllocateGauge(name, tags)
}

func c19AfterPanic(nk, bad int, gauge bool) string {
	log := &Log{}
	kids := make([]tally.CachedStatsReporter, nk)
	for i := range kids {
		rc := &RecCached{L: log, Src: i, Caps: caps{true, true}}
		if i == bad {
			kids[i] = &c19Panicky{RecCached: rc, on: "boom"}
		} else {
			kids[i] = rc
		}
	}
	m := multi.NewMultiCachedReporter(kids...)
	func() {
		defer func() { recover() }()
		if gauge {
			m.AllocateGauge("boom", nil)
		} else {
			m.AllocateCounter("boom", nil)
		}
	}()
	before := log.Len()
	var wg sync.WaitGroup
	wg.Add(1)
	go func() {
		defer wg.Done()
		m.AllocateCounter("c", map[string]string{"a": "b"}).ReportCount(3)
		m.AllocateGauge("g", nil).ReportGauge(1.5)
		m.AllocateTimer("t", nil).ReportTimer(time.Second)
		m.AllocateHistogram("h", nil, tally.ValueBuckets{1}).ValueBucket(0, 1).ReportSamples(2)
		m.Flush()
	}()
	if dl := waitOrDeadlock(&wg, "tally/v4/multi."); dl != "" {
		return fmt.Sprintf("after child %d of %d panicked in an allocation (the caller recovered), later calls on the multi reporter hang: %s", bad, nk, dl)
	}
	evs := log.Snapshot()[before:]
	// 10 calls per child: 4 allocations, 4 reports, 1 bucket, 1 flush
	per := make([]int, nk)
	for _, e := range evs {
		per[e.Src]++
	}
	for i, n := range per {
		if n != 10 {
			return fmt.Sprintf("after child %d of %d panicked in an allocation (the caller recovered), 10 later calls on the multi reporter reached child %d %d times", bad, nk, i, n)
		}
	}
	for j := 0; j+nk <= len(evs); j += nk {
		for i := 0; i < nk; i++ {
			if evs[j+i].Src != i || evs[j+i].K != evs[j].K {
				return fmt.Sprintf("after a child panicked: later call %d did not reach the children in the order they were given", j/nk)
			}
		}
	}
	return ""
}

// gate: a child whose first Flush blocks until released
type c19Gate struct {
	n       *int64
	first   chan struct{}
	release chan struct{}
	once    *sync.Once
}

func (g *c19Gate) Capabilities() tally.Capabilities { return caps{true, true} }
func (g *c19Gate) Flush() {
	atomic.AddInt64(g.n, 1)
	if g.first != nil {
		blocked := false
		g.once.Do(func() { blocked = true })
		if blocked {
			close(g.first)
			<-g.release
		}
	}
}

type c19GateP struct {
	tally.StatsReporter // only Flush and Capabilities are called in this stream
	g *c19Gate
}

func (p c19GateP) Capabilities() tally.Capabilities { return p.g.Capabilities() }
func (p c19GateP) Flush()                           { p.g.Flush() }

type c19GateC struct {
	tally.CachedStatsReporter
	g *c19Gate
}

func (p c19GateC) Capabilities() tally.Capabilities { return p.g.Capabilities() }
func (p c19GateC) Flush()                           { p.g.Flush() }

func c19Overlap(cached bool, nk, nf, hold int) ([]int64, string) {
	counts := make([]int64, nk)
	first, release := make(chan struct{}), make(chan struct{})
	var plain []tally.StatsReporter
	var cach []tally.CachedStatsReporter
	for i := 0; i < nk; i++ {
		g := &c19Gate{n: &counts[i]}
		if i == hold {
			g.first, g.release, g.once = first, release, &sync.Once{}
		}
		plain = append(plain, c19GateP{g: g})
		cach = append(cach, c19GateC{g: g})
	}
	var flush func()
	if cached {
		flush = multi.NewMultiCachedReporter(cach...).Flush
	} else {
		flush = multi.NewMultiReporter(plain...).Flush
	}
	var wg sync.WaitGroup
	wg.Add(1)
	go func() { defer wg.Done(); flush() }()
	<-first // the first flush is inside child [hold]
	for j := 1; j < nf; j++ {
		wg.Add(1)
		go func() { defer wg.Done(); flush() }()
	}
	// the later flushes are not gated: let them run to completion, then release the first
	deadline := time.Now().Add(2 * time.Second)
	for time.Now().Before(deadline) {
		done := true
		for i := range counts {
			want := int64(nf)
			if i > hold {
				want-- // the held flush has not reached the children behind the gate yet
			}
			if atomic.LoadInt64(&counts[i]) < want {
				done = false
			}
		}
		if done {
			break
		}
		time.Sleep(200 * time.Microsecond)
	}
	close(release)
	wg.Wait()
	got := make([]int64, nk)
	for i := range counts {
		got[i] = atomic.LoadInt64(&counts[i])
		if got[i] != int64(nf) {
			return got, fmt.Sprintf("%d overlapping Flush calls on a multi reporter with %d children (first held inside child %d): child %d was flushed %d times, expected %d", nf, nk, hold, i, got[i], nf)
		}
	}
	return got, ""
}
