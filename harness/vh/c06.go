package main

// C06 — sanitization.  Two streams of cases against the REAL implementation:
//
//   mode 0 (sanitizer level): tally.NewSanitizer(opts).Name/Key/Value (and the
//     no-op sanitizer) on batches of generated strings; the direct predicate
//     is the property text (only allowed runes or the replacement, valid input
//     unchanged, idempotent, deterministic, rune count preserved, no invalid
//     byte survives, no-op = identity); every call is repeated from 16
//     goroutines and compared with the sequential result (pooled buffers);
//   mode 1 (scope level): a root scope with SanitizeOptions over a recording
//     reporter, a history of SubScope/Tagged/metric operations with dirty
//     strings everywhere and the cardinality metrics enabled; EVERY string
//     argument of EVERY reporter call must consist of allowed runes or the
//     replacement.
//
// Both kinds of cases are also sent to the Gallina model (Corr/SanitizeCorr.v).
//
// Known defects of the pinned tree (F06a: built-in cardinality tags are not
// sanitized; F06b: a raw invalid byte passes when U+FFFD is allowed) are
// replayed first as fixed witnesses.  While a witness still fails, generated
// cases inside that defect's region are reported through FailKnown and kept
// away from the model (which describes the repaired tree); once the fix is in
// the tree they are ordinary cases.

import (
	"encoding/json"
	"fmt"
	"sort"
	"sync"
	"time"
	"unicode/utf8"

	tally "github.com/uber-go/tally/v4"
	"github.com/uber-go/tally/v4/m3"
	"github.com/uber-go/tally/v4/prometheus"
)

type c06Table struct {
	R [][2]int32 `json:"r,omitempty"`
	C []int32    `json:"c,omitempty"`
}
type c06Opts struct {
	Shipped string   `json:"shipped,omitempty"` // m3 | prometheus | alnum_ | alnum_- | alnum_-. : taken from the package variables at run time
	Name    c06Table `json:"name"`
	Key     c06Table `json:"key"`
	Value   c06Table `json:"value"`
	Rep     int32    `json:"rep"`
}
type c06Call struct {
	K int `json:"k"` // 1 Name 2 Key 3 Value 0 no-op sanitizer
	S []B `json:"s"`
}
type c06Op struct {
	Op   string `json:"op"` // sub | tag | metric
	P    int    `json:"p"`  // scope index
	Kind int    `json:"kind,omitempty"`
	Name B      `json:"name,omitempty"`
	Tags [][2]B `json:"tags,omitempty"`
}
type c06Case struct {
	Mode    int     `json:"mode"`
	NoOpts  bool    `json:"noopts,omitempty"`
	Opts    c06Opts `json:"opts"`
	Witness string  `json:"witness,omitempty"`
	// mode 0
	Calls []c06Call `json:"calls,omitempty"`
	// mode 1
	Cached   bool    `json:"cached,omitempty"`
	Omit     bool    `json:"omit,omitempty"`
	Shards   uint    `json:"shards,omitempty"`
	Prefix   B       `json:"prefix,omitempty"`
	Sep      B       `json:"sep,omitempty"`
	RootTags [][2]B  `json:"roottags,omitempty"`
	CardTags [][2]B  `json:"cardtags,omitempty"`
	Ops      []c06Op `json:"ops,omitempty"`
}

// ---------------------------------------------------------------- options

func c06FromVC(v tally.ValidCharacters) c06Table {
	var t c06Table
	for _, r := range v.Ranges {
		t.R = append(t.R, [2]int32{int32(r[0]), int32(r[1])})
	}
	for _, c := range v.Characters {
		t.C = append(t.C, int32(c))
	}
	return t
}
func (t c06Table) vc() tally.ValidCharacters {
	var v tally.ValidCharacters
	for _, r := range t.R {
		v.Ranges = append(v.Ranges, tally.SanitizeRange{rune(r[0]), rune(r[1])})
	}
	for _, c := range t.C {
		v.Characters = append(v.Characters, rune(c))
	}
	return v
}
func c06FromSO(o tally.SanitizeOptions) c06Opts {
	return c06Opts{Name: c06FromVC(o.NameCharacters), Key: c06FromVC(o.KeyCharacters), Value: c06FromVC(o.ValueCharacters), Rep: int32(o.ReplacementCharacter)}
}
// so builds the options as a caller might: classes with the same ranges share ONE ranges slice, and
// that slice has spare capacity (e.g. built with append) - the options are the caller's memory and
// each class's sanitizer must leave it alone.
func (o c06Opts) so() tally.SanitizeOptions {
	so := tally.SanitizeOptions{NameCharacters: o.Name.vc(), KeyCharacters: o.Key.vc(), ValueCharacters: o.Value.vc(), ReplacementCharacter: rune(o.Rep)}
	same := func(a, b c06Table) bool {
		if len(a.R) != len(b.R) {
			return false
		}
		for i := range a.R {
			if a.R[i] != b.R[i] {
				return false
			}
		}
		return true
	}
	shared := make([]tally.SanitizeRange, len(so.NameCharacters.Ranges), len(so.NameCharacters.Ranges)+8)
	copy(shared, so.NameCharacters.Ranges)
	if len(shared) > 0 {
		so.NameCharacters.Ranges = shared
		if same(o.Name, o.Key) {
			so.KeyCharacters.Ranges = shared
		}
		if same(o.Name, o.Value) {
			so.ValueCharacters.Ranges = shared
		}
	}
	return so
}

var c06ShippedNames = []string{"m3", "prometheus", "alnum_", "alnum_-", "alnum_-."}

// c06Resolve fills the tables of a shipped configuration from the package
// variables of the tree under test (so an edit of a table reaches the model
// and the predicate) and returns the numeric id sent to Coq.
func c06Resolve(o *c06Opts) int64 {
	one := func(chars []rune) tally.SanitizeOptions {
		v := tally.ValidCharacters{Ranges: tally.AlphanumericRange, Characters: chars}
		return tally.SanitizeOptions{NameCharacters: v, KeyCharacters: v, ValueCharacters: v, ReplacementCharacter: tally.DefaultReplacementCharacter}
	}
	var so tally.SanitizeOptions
	var id int64
	switch o.Shipped {
	case "m3":
		so, id = m3.DefaultSanitizerOpts, 1
	case "prometheus":
		so, id = prometheus.DefaultSanitizerOpts, 2
	case "alnum_":
		so, id = one(tally.UnderscoreCharacters), 3
	case "alnum_-":
		so, id = one(tally.UnderscoreDashCharacters), 4
	case "alnum_-.":
		so, id = one(tally.UnderscoreDashDotCharacters), 5
	default:
		return 0
	}
	s := o.Shipped
	*o = c06FromSO(so)
	o.Shipped = s
	return id
}

func (t c06Table) allowed(r rune) bool {
	for _, x := range t.R {
		if r >= rune(x[0]) && r <= rune(x[1]) {
			return true
		}
	}
	for _, c := range t.C {
		if rune(c) == r {
			return true
		}
	}
	return false
}
func (o c06Opts) table(k int) c06Table {
	switch k {
	case 1:
		return o.Name
	case 2:
		return o.Key
	}
	return o.Value
}

// what WriteRune writes for the replacement rune
func c06NormRep(rep int32) rune {
	if !utf8.ValidRune(rune(rep)) {
		return utf8.RuneError
	}
	return rune(rep)
}

func c06Params(mode int64, c *c06Case, o c06Opts, shippedID int64) []int64 {
	p := []int64{mode}
	if c.NoOpts {
		p = append(p, 0, 0, 0, 0, 0, 0, 0, 0)
	} else {
		p = append(p, 1+shippedID, int64(o.Rep))
		for _, t := range []c06Table{o.Name, o.Key, o.Value} {
			p = append(p, int64(len(t.R)))
			for _, r := range t.R {
				p = append(p, int64(r[0]), int64(r[1]))
			}
			p = append(p, int64(len(t.C)))
			for _, ch := range t.C {
				p = append(p, int64(ch))
			}
		}
	}
	if mode == 1 {
		p = append(p, b2i(c.Cached), b2i(c.Omit))
	}
	return p
}

// ---------------------------------------------------------------- generators

var c06EdgeRunes = []rune{'a', 'z', 'A', 'Z', '0', '9', '`', '{', '@', '[', '/', ':'}
var c06OtherASCII = []rune{'_', '-', '.', ' ', 'm', 'Q', '5', '~', '!', 0, 0x7f, '#', '"', '\\', '\n', '*'}
var c06Multi = []string{"é", "ß", "€", "߿", "ࠀ", "�", "￼", "\U00010000", "\U0010ffff", "퟿", "", "\u0080", "日", "😀"}
var c06Invalid = []string{"\xff", "\xc3", "\xa9", "\x80", "\xbf", "\xc0\x80", "\xc1\xbf", "\xe0\x80\x80", "\xe0\x9f\xbf", "\xed\xa0\x80", "\xed\xbf\xbf",
	"\xf4\x90\x80\x80", "\xf0\x8f\xbf\xbf", "\xf0\x9f", "\xf0\x9f\x98", "\xef\xbf", "\xe2\x82", "\xf8", "\xf5\x80\x80\x80", "\xfe", "\xc3\x28", "\xe2\x28\xa1"}
var c06AdvRunes = []int32{'a', 'z', 'A', 'Z', '0', '9', '`', '{', '@', '[', '/', ':', '_', '-', '.', 'b', 'y', 0, 0x7f, 0x80, 0xe9, 0x7ff, 0x800,
	0xd7ff, 0xd800, 0xdfff, 0xe000, 0xfffc, 0xfffd, 0xfffe, 0xffff, 0x10000, 0x10ffff, 0x110000, -1, 0x7fffffff, -0x80000000, 0x1f600}

// c06Str draws one string; valid => well-formed UTF-8 only.
func c06Str(r *Rng, valid bool, maxPieces int) string {
	n := 0
	switch x := r.Intn(100); {
	case x < 6:
		n = 0
	case x < 70:
		n = r.Range(1, 6)
	default:
		n = r.Range(4, maxPieces)
	}
	var b []byte
	for i := 0; i < n; i++ {
		switch x := r.Intn(100); {
		case x < 40:
			b = append(b, string(c06EdgeRunes[r.Intn(len(c06EdgeRunes))])...)
		case x < 60:
			b = append(b, string(c06OtherASCII[r.Intn(len(c06OtherASCII))])...)
		case x < 68:
			b = append(b, byte(r.Intn(128)))
		case x < 84 || valid:
			b = append(b, c06Multi[r.Intn(len(c06Multi))]...)
		case x < 96:
			b = append(b, c06Invalid[r.Intn(len(c06Invalid))]...)
		default:
			b = append(b, byte(r.Intn(256)))
		}
	}
	s := string(b)
	if valid && !utf8.ValidString(s) {
		return "z{"
	}
	return s
}

// c06Long draws a long string (up to 4 KiB).
func c06Long(r *Rng, valid bool) string {
	target := []int{200, 1000, 4090, 4096}[r.Intn(4)]
	var b []byte
	for len(b) < target {
		p := c06Str(r, valid, 12)
		if len(b)+len(p) > 4096 {
			break
		}
		b = append(b, p...)
		if len(p) == 0 {
			b = append(b, 'z')
		}
	}
	return string(b)
}

func c06AdvTable(r *Rng) c06Table {
	var t c06Table
	for n := []int{0, 1, 1, 2, 2, 3}[r.Intn(6)]; n > 0; n-- {
		lo := c06AdvRunes[r.Intn(len(c06AdvRunes))]
		hi := c06AdvRunes[r.Intn(len(c06AdvRunes))]
		switch r.Intn(6) {
		case 0:
			hi = lo // single rune
		case 1:
			if lo < hi { // inverted
				lo, hi = hi, lo
			}
		default:
			if lo > hi {
				lo, hi = hi, lo
			}
		}
		t.R = append(t.R, [2]int32{lo, hi})
	}
	for n := []int{0, 0, 1, 2, 3}[r.Intn(5)]; n > 0; n-- {
		t.C = append(t.C, c06AdvRunes[r.Intn(len(c06AdvRunes))])
	}
	return t
}

func c06GenOpts(r *Rng) c06Opts {
	if r.Chance(45) {
		return c06Opts{Shipped: c06ShippedNames[r.Intn(len(c06ShippedNames))]}
	}
	o := c06Opts{Name: c06AdvTable(r), Rep: c06AdvRunes[r.Intn(len(c06AdvRunes))]}
	if r.Chance(40) {
		o.Rep = []int32{'_', '-', '.', 'z', 0xfffd}[r.Intn(5)]
	}
	if r.Chance(50) {
		o.Key, o.Value = c06AdvTable(r), c06AdvTable(r)
	} else {
		o.Key, o.Value = o.Name, o.Name
		if r.Chance(50) {
			// the same ranges, other extra characters per class (as m3: ".-_" for names and values, "-_" for keys)
			o.Key.C, o.Value.C = nil, nil
			for _, ch := range o.Name.C {
				if r.Bool() {
					o.Key.C = append(o.Key.C, ch)
				}
				if r.Bool() {
					o.Value.C = append(o.Value.C, ch)
				}
			}
			extra := []int32{'.', '-', '_', ':', '/', '~'}
			o.Key.C = append(o.Key.C, extra[r.Intn(len(extra))])
			o.Value.C = append(o.Value.C, extra[r.Intn(len(extra))])
			o.Name.C = append(o.Name.C, extra[r.Intn(len(extra))])
		}
	}
	if r.Chance(30) {
		// alphanumeric with a boundary nudged: off-by-one sensitive
		o.Name.R = append(o.Name.R, [2]int32{'a', 'z'}, [2]int32{'A', 'Z'}, [2]int32{'0', '9'})
	}
	return o
}

func c06GenSan(r *Rng, i int, thorough bool) c06Case {
	c := c06Case{Mode: 0}
	if i%23 == 7 {
		c.NoOpts = true
	} else {
		c.Opts = c06GenOpts(r)
	}
	o := c.Opts
	c06Resolve(&o)
	ncalls := r.Range(1, 3)
	long := i%41 == 5
	for j := 0; j < ncalls; j++ {
		k := r.Range(1, 3)
		if c.NoOpts || r.Chance(4) {
			k = []int{0, 1, 2, 3}[r.Intn(4)]
		}
		// stay out of the F06b region most of the time (U+FFFD allowed and
		// invalid bytes in the input)
		valid := false
		if !c.NoOpts && k != 0 && o.table(k).allowed(utf8.RuneError) {
			valid = r.Chance(85)
		}
		call := c06Call{K: k}
		for n := r.Range(1, 5); n > 0; n-- {
			call.S = append(call.S, B(c06Str(r, valid, 14)))
		}
		if long && j == 0 {
			call.S = append(call.S, B(c06Long(r, valid)))
		}
		c.Calls = append(c.Calls, call)
	}
	return c
}

var c06Delims = []rune{'+', ',', '='}

func c06StripDelims(s string) string {
	b := []byte(s)
	for i, x := range b {
		if x == '+' || x == ',' || x == '=' {
			b[i] = ';'
		}
	}
	return string(b)
}

// c06GenScope draws a scope-level case.  Outside this property's subject and
// therefore avoided: the registry key delimiters '+' ',' '=' in sanitized
// strings and raw tag strings, empty tag keys (C05), two keys of one map
// that sanitize to the same key (Go map iteration order decides), closing of
// subscopes (C07).
func c06GenScope(r *Rng, i int) c06Case {
	c := c06Case{Mode: 1, Cached: r.Bool(), Omit: r.Chance(35), Shards: uint(r.Intn(3))}
	if i%17 == 3 {
		c.NoOpts = true
	} else {
		for {
			c.Opts = c06GenOpts(r)
			o := c.Opts
			c06Resolve(&o)
			bad := false
			for _, d := range c06Delims {
				if o.Name.allowed(d) || o.Key.allowed(d) || o.Value.allowed(d) || c06NormRep(o.Rep) == d {
					bad = true
				}
			}
			if !bad {
				break
			}
		}
	}
	o := c.Opts
	c06Resolve(&o)
	if c06RegionA(&c, o) && r.Chance(85) {
		// built-in cardinality tags would need sanitizing (F06a region): mostly stay outside
		c.Omit = true
	}
	var san tally.Sanitizer = tally.NewNoOpSanitizer()
	if !c.NoOpts {
		san = tally.NewSanitizer(o.so())
	}
	str := func(k int) string {
		valid := !c.NoOpts && o.table(k).allowed(utf8.RuneError) && r.Chance(90)
		s := c06Str(r, valid, 8)
		if k != 1 || c.NoOpts {
			s = c06StripDelims(s)
		}
		return s
	}
	tags := func(max int) [][2]B {
		var out [][2]B
		seenRaw, seenSan := map[string]bool{}, map[string]bool{}
		for n := r.Intn(max + 1); n > 0; n-- {
			k := str(2)
			if k == "" || seenRaw[k] || seenSan[san.Key(k)] {
				continue
			}
			seenRaw[k], seenSan[san.Key(k)] = true, true
			out = append(out, [2]B{B(k), B(str(3))})
		}
		sort.Slice(out, func(a, b int) bool { return out[a][0] < out[b][0] })
		return out
	}
	c.Prefix = B(str(1))
	if r.Chance(30) {
		c.Prefix = ""
	}
	switch r.Intn(4) {
	case 0:
		c.Sep = ""
	case 1:
		c.Sep = B(string(c06OtherASCII[r.Intn(3)]))
	default:
		c.Sep = B(str(1))
	}
	c.RootTags = tags(2)
	if !c.Omit {
		c.CardTags = tags(2)
	}
	nsc := 1
	for n := r.Range(1, 7); n > 0; n-- {
		switch x := r.Intn(10); {
		case x < 2:
			c.Ops = append(c.Ops, c06Op{Op: "sub", P: r.Intn(nsc), Name: B(str(1))})
			nsc++
		case x < 4:
			c.Ops = append(c.Ops, c06Op{Op: "tag", P: r.Intn(nsc), Tags: tags(2)})
			nsc++
		default:
			c.Ops = append(c.Ops, c06Op{Op: "metric", P: r.Intn(nsc), Kind: r.Range(1, 4), Name: B(str(1))})
		}
	}
	return c
}

// ---------------------------------------------------------------- regions of the known defects

func c06InvalidFor(t c06Table, s string) bool {
	return t.allowed(utf8.RuneError) && !utf8.ValidString(s)
}

// regionB: some input string carries invalid bytes for a table that allows U+FFFD.
func c06RegionB(c *c06Case, o c06Opts) bool {
	if c.NoOpts {
		return false
	}
	if c.Mode == 0 {
		for _, call := range c.Calls {
			for _, s := range call.S {
				if call.K != 0 && c06InvalidFor(o.table(call.K), string(s)) {
					return true
				}
			}
		}
		return false
	}
	if c06InvalidFor(o.Name, string(c.Prefix)) || c06InvalidFor(o.Name, string(c.Sep)) {
		return true
	}
	kv := func(ts [][2]B) bool {
		for _, t := range ts {
			if c06InvalidFor(o.Key, string(t[0])) || c06InvalidFor(o.Value, string(t[1])) {
				return true
			}
		}
		return false
	}
	if kv(c.RootTags) || kv(c.CardTags) {
		return true
	}
	for _, op := range c.Ops {
		if c06InvalidFor(o.Name, string(op.Name)) || kv(op.Tags) {
			return true
		}
	}
	return false
}

func c06AllAllowed(t c06Table, s string) bool {
	for _, r := range s {
		if !t.allowed(r) {
			return false
		}
	}
	return true
}

// regionA: cardinality metrics enabled and a built-in tag is not already clean.
func c06RegionA(c *c06Case, o c06Opts) bool {
	if c.NoOpts || c.Mode != 1 || c.Omit {
		return false
	}
	for _, k := range []string{"version", "host", "instance"} {
		if !c06AllAllowed(o.Key, k) {
			return true
		}
	}
	return !c06AllAllowed(o.Value, tally.Version) || !c06AllAllowed(o.Value, tally.DefaultTagRedactValue)
}

// ---------------------------------------------------------------- direct predicates

// c06CheckOut: every rune of out is allowed or the (normalised) replacement,
// and no invalid byte survives.
func c06CheckOut(t c06Table, rep int32, out string) string {
	nr := c06NormRep(rep)
	for i, r := range out {
		if r == utf8.RuneError {
			if _, w := utf8.DecodeRuneInString(out[i:]); w == 1 {
				return fmt.Sprintf("invalid byte 0x%02x passed through at offset %d of %q", out[i], i, out)
			}
		}
		if !t.allowed(r) && r != nr {
			return fmt.Sprintf("rune %U at offset %d of %q is neither allowed nor the replacement %U", r, i, out, nr)
		}
	}
	return ""
}

type c06Job struct {
	f    func(string) string
	in   string
	want string
}

// c06RunSan drives the real sanitizer on one mode-0 case.
func c06RunSan(c *c06Case, o c06Opts, jobs *[]c06Job) (in, obs []Ev, changed bool, fail string) {
	var san tally.Sanitizer
	if !c.NoOpts {
		san = tally.NewSanitizer(o.so())
	}
	noop := tally.NewNoOpSanitizer()
	for _, call := range c.Calls {
		var f func(string) string
		s := san
		if call.K == 0 || c.NoOpts {
			s = noop
		}
		switch call.K {
		case 0:
			f = []func(string) string{s.Name, s.Key, s.Value, tally.NoOpSanitizeFn}[len(call.S)%4]
		case 1:
			f = s.Name
		case 2:
			f = s.Key
		default:
			f = s.Value
		}
		ie, oe := Ev{K: call.K}, Ev{K: call.K}
		for _, bs := range call.S {
			x := string(bs)
			y := f(x)
			ie.S = append(ie.S, x)
			oe.S = append(oe.S, y)
			*jobs = append(*jobs, c06Job{f, x, y})
			if y != x {
				changed = true
			}
			if fail != "" {
				continue
			}
			if call.K == 0 || c.NoOpts {
				if y != x {
					fail = fmt.Sprintf("no-op sanitizer changed %q into %q", x, y)
				}
				continue
			}
			t := o.table(call.K)
			if m := c06CheckOut(t, o.Rep, y); m != "" {
				fail = fmt.Sprintf("kind %d input %q: %s", call.K, x, m)
			} else if utf8.ValidString(x) && c06AllAllowed(t, x) && y != x {
				fail = fmt.Sprintf("kind %d: valid input %q changed into %q", call.K, x, y)
			} else if z := f(y); z != y {
				fail = fmt.Sprintf("kind %d: not idempotent: %q -> %q -> %q", call.K, x, y, z)
			} else if z := f(x); z != y {
				fail = fmt.Sprintf("kind %d: not deterministic: %q -> %q, then %q", call.K, x, y, z)
			} else if utf8.RuneCountInString(x) != utf8.RuneCountInString(y) {
				fail = fmt.Sprintf("kind %d: rune count %d -> %d (%q -> %q)", call.K, utf8.RuneCountInString(x), utf8.RuneCountInString(y), x, y)
			}
		}
		in = append(in, ie)
		obs = append(obs, oe)
	}
	return
}

// c06Concurrent re-runs every job from 16 goroutines (each starting at a
// different offset) and compares with the sequential results.
func c06Concurrent(jobs []c06Job) string {
	if len(jobs) == 0 {
		return ""
	}
	var wg sync.WaitGroup
	errs := make([]string, 16)
	for g := 0; g < 16; g++ {
		wg.Add(1)
		go func(g int) {
			defer wg.Done()
			defer func() {
				if p := recover(); p != nil && errs[g] == "" {
					errs[g] = fmt.Sprintf("goroutine %d: sanitizer panicked under concurrent use: %v", g, p)
				}
			}()
			off := g * len(jobs) / 16
			for i := range jobs {
				j := jobs[(i+off)%len(jobs)]
				if got := j.f(j.in); got != j.want && errs[g] == "" {
					errs[g] = fmt.Sprintf("goroutine %d: sanitize(%q) = %q, sequential result %q", g, j.in, got, j.want)
				}
			}
		}(g)
	}
	wg.Wait()
	for _, e := range errs {
		if e != "" {
			return e
		}
	}
	return ""
}

func c06TagMap(ts [][2]B) map[string]string {
	m := make(map[string]string, len(ts))
	for _, t := range ts {
		m[string(t[0])] = string(t[1])
	}
	return m
}
func c06Flat(ts [][2]B) []string {
	var out []string
	for _, t := range ts {
		out = append(out, string(t[0]), string(t[1]))
	}
	return out
}

// c06RunScope drives a real root scope; obs = the string-bearing reporter
// calls in order (before Close); failA/failB = predicate failures that
// belong to the built-in cardinality tags / anything else.
func c06RunScope(c *c06Case, o c06Opts) (in, obs []Ev, fail string, onlyCardBuiltin bool) {
	log := &Log{}
	so := tally.ScopeOptions{
		Prefix:                 string(c.Prefix),
		Separator:              string(c.Sep),
		Tags:                   c06TagMap(c.RootTags),
		OmitCardinalityMetrics: c.Omit,
		CardinalityMetricsTags: c06TagMap(c.CardTags),
	}
	if !c.NoOpts {
		x := o.so()
		so.SanitizeOptions = &x
	}
	if c.Cached {
		so.CachedReporter = &RecCached{L: log, Caps: caps{true, true}}
	} else {
		so.Reporter = &RecReporter{L: log, Caps: caps{true, true}}
	}
	root, closer := tally.VerifNewRootScope(so, 0, c.Shards)
	scopes := []tally.Scope{root}
	in = append(in, Ev{K: 10, S: append([]string{string(c.Prefix), string(c.Sep)}, c06Flat(c.RootTags)...)},
		Ev{K: 11, S: c06Flat(c.CardTags)})
	for _, op := range c.Ops {
		p := op.P
		if p < 0 || p >= len(scopes) {
			p = 0
		}
		switch op.Op {
		case "sub":
			scopes = append(scopes, scopes[p].SubScope(string(op.Name)))
			in = append(in, Ev{K: 20, I: []int64{int64(p)}, S: []string{string(op.Name)}})
		case "tag":
			scopes = append(scopes, scopes[p].Tagged(c06TagMap(op.Tags)))
			in = append(in, Ev{K: 21, I: []int64{int64(p)}, S: c06Flat(op.Tags)})
		default:
			s := scopes[p]
			switch op.Kind {
			case 1:
				s.Counter(string(op.Name)).Inc(1)
			case 2:
				s.Gauge(string(op.Name)).Update(1)
			case 3:
				s.Timer(string(op.Name)).Record(time.Millisecond)
			default:
				s.Histogram(string(op.Name), tally.ValueBuckets{0, 2}).RecordValue(1)
			}
			tally.VerifReportOnce(root)
			in = append(in, Ev{K: 30, I: []int64{int64(p), int64(op.Kind)}, S: []string{string(op.Name)}})
		}
	}
	proj := func(evs []Ev) []Ev {
		var out []Ev
		for _, e := range evs {
			if (e.K >= 1 && e.K <= 5) || (e.K >= 11 && e.K <= 14) {
				out = append(out, Ev{K: e.K, S: e.S})
			}
		}
		return out
	}
	obs = proj(log.Snapshot())
	closer.Close()
	all := proj(log.Snapshot())

	if c.NoOpts {
		fail = c06NoOptsExpect(c, obs)
		return
	}
	// every string argument of every reporter call
	builtin := map[string]bool{"version": true, "host": true, "instance": true}
	for _, e := range all {
		for i, s := range e.S {
			t, what := o.Value, "tag value"
			if i == 0 {
				t, what = o.Name, "metric name"
			} else if i%2 == 1 {
				t, what = o.Key, "tag key"
			}
			m := c06CheckOut(t, o.Rep, s)
			if m == "" {
				continue
			}
			msg := fmt.Sprintf("reporter call kind %d %q: %s: %s", e.K, e.S, what, m)
			isBuiltin := false
			if i > 0 {
				ki := 1 + 2*((i-1)/2)
				k, v := e.S[ki], e.S[ki+1]
				isBuiltin = (e.K == 2 || e.K == 12) && builtin[k] && (v == tally.Version || v == tally.DefaultTagRedactValue)
			}
			if !isBuiltin {
				return in, obs, msg, false
			}
			if fail == "" {
				fail = msg
			}
		}
	}
	onlyCardBuiltin = fail != ""
	return
}

// without SanitizeOptions every string is passed through byte for byte
func c06NoOptsExpect(c *c06Case, obs []Ev) string {
	type sc struct {
		prefix string
		tags   map[string]string
	}
	sep := string(c.Sep)
	if sep == "" {
		sep = tally.DefaultSeparator
	}
	fq := func(p, n string) string {
		if p == "" {
			return n
		}
		return p + sep + n
	}
	merge := func(a map[string]string, b [][2]B) map[string]string {
		m := map[string]string{}
		for k, v := range a {
			m[k] = v
		}
		for _, t := range b {
			m[string(t[0])] = string(t[1])
		}
		return m
	}
	scopes := []sc{{string(c.Prefix), merge(nil, c.RootTags)}}
	want := map[string]bool{}
	for _, op := range c.Ops {
		p := scopes[op.P]
		switch op.Op {
		case "sub":
			scopes = append(scopes, sc{fq(p.prefix, string(op.Name)), p.tags})
		case "tag":
			scopes = append(scopes, sc{p.prefix, merge(p.tags, op.Tags)})
		default:
			k := op.Kind
			if c.Cached {
				k += 10
			}
			want[Ev{K: k, S: nameTags(fq(p.prefix, string(op.Name)), p.tags)}.Term()] = true
		}
	}
	card := map[string]bool{}
	for _, n := range []string{"tally.internal.counter_cardinality", "tally.internal.gauge_cardinality", "tally.internal.histogram_cardinality", "tally.internal.num_active_scopes"} {
		card[n] = true
	}
	got := map[string]bool{}
	for _, e := range obs {
		if len(e.S) > 0 && card[e.S[0]] && (e.K == 2 || e.K == 12) {
			continue
		}
		t := e.Term()
		got[t] = true
		if !want[t] {
			return fmt.Sprintf("without SanitizeOptions the reporter saw %v, which is not a byte-for-byte pass-through of the inputs", e)
		}
	}
	for t := range want {
		if !got[t] {
			return "without SanitizeOptions an expected raw delivery is missing: " + t
		}
	}
	return ""
}

// ---------------------------------------------------------------- witnesses

func c06Witnesses() []c06Case {
	all := c06Table{R: [][2]int32{{0, 0x10ffff}}}
	fffdA := c06Table{R: [][2]int32{{0xfffd, 0xfffd}}, C: []int32{'a'}}
	return []c06Case{
		// F06b: U+FFFD allowed, nothing replaced before the invalid byte: "a\xffb" comes back unchanged
		{Mode: 0, Witness: "F06b", Opts: c06Opts{Name: all, Key: all, Value: all, Rep: '_'},
			Calls: []c06Call{{K: 1, S: []B{"a\xffb"}}}},
		// F06b at scope level: two raw halves of a rune that is not allowed join up in the
		// fully qualified name ("a\xc3" + "\xa9" + "a" = "aéa")
		{Mode: 1, Witness: "F06b", Omit: true, Shards: 1, Opts: c06Opts{Name: fffdA, Key: fffdA, Value: fffdA, Rep: 'a'},
			Prefix: "a\xc3", Sep: "\xa9", Ops: []c06Op{{Op: "metric", P: 0, Kind: 1, Name: "a"}}},
		// F06a: a shipped configuration (no '.' among the value characters): version=4.1.17 delivered raw
		{Mode: 1, Witness: "F06a", Shards: 1, Opts: c06Opts{Shipped: "prometheus"},
			Prefix: "svc", Ops: []c06Op{{Op: "metric", P: 0, Kind: 1, Name: "c"}}},
	}
}

// ---------------------------------------------------------------- driver

func init() {
	props["C06"] = func(ctx *Ctx) {
		ctx.Header("SanitizeCorr")
		ctx.Res.Rule = "case = (SanitizeOptions, batches of strings for Name/Key/Value) or (SanitizeOptions, reporter flavour, root prefix/separator/tags, cardinality tags, history of SubScope/Tagged/metric operations); generated from the seed; non-trivial = options set and at least one string changed (sanitizer level) / at least one metric delivered (scope level); distinct by case hash"
		pinned := map[string]bool{} // known defect still present in the tree under test
		var jobs []c06Job
		conc := 0
		flush := func() {
			if m := c06Concurrent(jobs); m != "" {
				ctx.Fail("concurrent_equals_sequential", m, map[string]string{"note": "16 goroutines re-running the sanitizer calls of the preceding cases"}, nil)
			}
			conc += len(jobs) * 16
			jobs = nil
		}
		one := func(c *c06Case) {
			o := c.Opts
			sid := c06Resolve(&o)
			regA, regB := c06RegionA(c, o) || c.Witness == "F06a", c06RegionB(c, o) || c.Witness == "F06b"
			var in, obs []Ev
			var fail, cls, key string
			nontrivial := false
			if c.Mode == 0 {
				var changed bool
				in, obs, changed, fail = c06RunSan(c, o, &jobs)
				nontrivial = changed && !c.NoOpts
				cls = "san/"
			} else {
				var onlyCard bool
				in, obs, fail, onlyCard = c06RunScope(c, o)
				if !onlyCard {
					regA = regA && fail == "" // something else than the built-in tags is dirty: not F06a
				}
				nontrivial = len(obs) > 0
				cls = "scope/" + map[bool]string{false: "plain/", true: "cached/"}[c.Cached]
			}
			switch {
			case c.NoOpts:
				cls += "no-options"
			case o.Shipped != "":
				cls += "shipped:" + o.Shipped
			default:
				cls += "adversarial"
			}
			region := ""
			if regA {
				region = "F06a"
			}
			if regB && !(regA && fail != "") {
				region = "F06b"
			}
			if region != "" {
				cls += "/region-" + region
			}
			if nontrivial {
				key = hashOf(c)
			}
			idx := ctx.Res.Evaluations
			term := gcase(idx, c06Params(int64(c.Mode), c, o, sid), in, obs)
			if fail != "" || (regA && pinned["F06a"]) || (regB && pinned["F06b"]) {
				term = "" // the model describes the repaired tree
			}
			ctx.Case(c, term, cls, key)
			if fail == "" {
				return
			}
			if region != "" {
				if c.Witness != "" {
					pinned[region] = true
				}
				ctx.FailKnown(region, "delivered_strings_allowed_or_replacement", fail, c, obs)
				return
			}
			ctx.Fail("sanitizer_contract", fail, c, obs)
		}
		if ctx.Replay != nil {
			var cm struct {
				R      bool `json:"caller_map_reuse"`
				Kind   int  `json:"kind"`
				Cached bool `json:"cached"`
				PT     bool `json:"parent_tagged"`
			}
			if json.Unmarshal(ctx.Replay, &cm) == nil && cm.R {
				ctx.Case(cm, "", "caller-map-reused-after-tagged", "")
				if f := callerMapReuse(cm.Kind, cm.Cached, cm.PT, true); f != "" {
					ctx.Fail("sanitizer_contract", f, cm, nil)
				}
				return
			}
			var c c06Case
			if err := json.Unmarshal(ctx.Replay, &c); err != nil {
				fatal(err)
			}
			one(&c)
			flush()
			return
		}
		for _, w := range c06Witnesses() {
			w := w
			one(&w)
		}
		for _, raw := range ctx.CorpusCases() {
			var c c06Case
			if json.Unmarshal(raw, &c) == nil {
				one(&c)
			}
		}
		nsan, nscope := ctx.N(700, 12000), ctx.N(300, 5000)
		for i := 0; i < nsan; i++ {
			c := c06GenSan(ctx.R, i, ctx.Thorough())
			one(&c)
			if len(jobs) > 400 {
				flush()
			}
		}
		flush()
		for i := 0; i < nscope; i++ {
			c := c06GenScope(ctx.R, i)
			one(&c)
		}
		// a clean map handed to Tagged under a sanitizer, then refilled by the caller with strings the
		// sanitizer would rewrite: nothing of that may reach the reporter
		for k := 0; k < 8; k++ {
			cs := map[string]interface{}{"caller_map_reuse": true, "kind": k & 1, "cached": k&2 == 2, "parent_tagged": k&4 == 4}
			ctx.Case(cs, "", "caller-map-reused-after-tagged", "")
			if f := callerMapReuse(k&1, k&2 == 2, k&4 == 4, true); f != "" {
				ctx.Fail("sanitizer_contract", f, cs, nil)
			}
		}
		jobs = nil
		ctx.Res.Extra["concurrent_sanitize_calls"] = conc
		ctx.Res.Extra["pinned_defects_present"] = pinned
		for id := range pinned {
			ctx.Note("known defect %s is present in the tree under test: generated cases inside its region are reported as known and not sent to the model", id)
		}
	}
}
