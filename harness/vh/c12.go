package main

// C12 — no M3 datagram exceeds MaxPacketSizeBytes; filling a packet never
// drops or duplicates a metric.
//
// Every case builds a REAL m3.NewReporter over a loopback UDP listener,
// allocates handles (counters, gauges, timers, value and duration
// histograms), reports through them from one goroutine with Flush() calls at
// arbitrary positions, closes the reporter, reads every datagram and decodes
// it with the vendored decoder.
//
// MaxPacketSizeBytes is either absolute or "fitted": overheadBytes + the
// charges of the first j reports + delta, so that batches are filled exactly
// (delta 0), one byte short, or one byte over.  In the Binary protocol every
// field has a fixed width, so an exactly filled batch is a datagram of exactly
// MaxPacketSizeBytes when the accounting is right and any undercharge shows
// as an overlong datagram.
//
// Direct predicates (on the real code only):
//   datagram_le_max         every datagram <= MaxPacketSizeBytes
//   no_drop_no_dup          the decoded metrics, concatenated in datagram order, are exactly the
//                           reported metrics in order (the reporter's own tally.internal.* metrics
//                           at every Flush included)
//   charged_ge_actual       per metric: size kept in its handle >= bytes it occupies in the datagram
//   envelope_le_allowance   datagram length - its metrics <= overheadBytes (allowance + empty batch
//                           with the common tags)
//   split_only_when_full    no batch is charged more than freeBytes; two consecutive batches are
//                           separated by a Flush or by a metric that did not fit; no batch spans a Flush
// Charged sizes, freeBytes and overheadBytes are read from the handles and the
// reporter by read-only reflection.
//
// Concurrent allocation stream: the handles of a case (histograms whose tag sets
// differ widely in encoded size, at most eight tags each) are allocated at the
// same time, one goroutine each; then every bucket is reported into closely
// filled packets.  charged_ge_actual is also evaluated handle by handle right
// after allocation (every bucket, reported or not) against the vendored encoder.
//
// Several reporters in one process: reporters of the other / the same / both
// protocols are created before the reporter of the case and stay open; half of
// these cases run in a process of their own (the harness re-executes itself in
// replay mode), so that the reporter created first is the first one the process
// ever creates.  Every predicate applies to the reporter of the case.
//
// Pool turnover stream: a few handles are allocated early, then more distinct
// tag sets than the reporter's tag-slice pool holds (DefaultMaxQueueSize) are
// allocated on the same reporter and never used, then late handles; early and
// late handles are reported into closely filled packets.  The handle-by-handle
// predicate measures with the tags the handle's pre-built metric holds after
// ALL allocations and compares them with the tags it was allocated with.
//
// Fault stream: the loopback sink is closed and re-opened on the SAME port in
// the middle of a history (ops -2 close, -3 re-open, -4 wait until the
// reporter's consumer is idle).  A datagram sent to the closed port is lost and
// answered with ICMP port unreachable, the following send fails with
// ECONNREFUSED, later sends reach the re-opened sink.  Metrics of batches sent
// while the sink was away may be lost (never an alarm); what IS received must
// still obey every predicate: each datagram <= MaxPacketSizeBytes, charged
// <= freeBytes, no datagram spans a Flush, and the received metrics are a
// subsequence of the reported ones (every report of a fault case carries a
// unique value, so a metric delivered twice or out of order has no place in it).
//
// Witness stream: the histories on which the pinned tree (allowance 19, bucket
// tags charged by string length) overflows — finding F12.

import (
	"bytes"
	"context"
	"encoding/json"
	"fmt"
	"math"
	"net"
	"os"
	"os/exec"
	"reflect"
	"sort"
	"strings"
	"sync"
	"time"

	tally "github.com/uber-go/tally/v4"
	"github.com/uber-go/tally/v4/m3"
	customtransport "github.com/uber-go/tally/v4/m3/customtransports"
	m3thrift "github.com/uber-go/tally/v4/m3/thrift/v2"
	"github.com/uber-go/tally/v4/thirdparty/github.com/apache/thrift/lib/go/thrift"
)

type c12Alloc struct {
	Kind    int     `json:"kind"` // 1 counter, 2 gauge, 3 timer, 4 value histogram, 5 duration histogram
	Name    B       `json:"name"`
	Tags    map[B]B `json:"tags,omitempty"`
	Buckets []int64 `json:"buckets,omitempty"` // float64 bits (kind 4) or nanoseconds (kind 5), increasing
}
type c12Op struct {
	H int   `json:"h"`           // handle index; -1 = Flush(); fault stream: -2 close the sink, -3 re-open it on the same port, -4 wait until the consumer is idle
	B int   `json:"b,omitempty"` // bucket pair index (histograms)
	V int64 `json:"v,omitempty"` // value (float64 bits for a gauge)
}
type c12Case struct {
	Witness   string     `json:"witness,omitempty"`
	Proto     int        `json:"proto"`                // 0 compact, 1 binary
	MaxPkt    int32      `json:"max_packet,omitempty"` // absolute when > 0, otherwise fitted:
	FitJ      int        `json:"fit_j,omitempty"`      // MaxPacketSizeBytes = overheadBytes + charges of the first fit_j reports + fit_delta
	FitDelta  int        `json:"fit_delta,omitempty"`
	Service   B          `json:"service"`
	Env       B          `json:"env"`
	Common    map[B]B    `json:"common,omitempty"`
	InclHost  bool       `json:"include_host,omitempty"` // Options.IncludeHost: the host name is one more common tag
	IDName    B          `json:"idname,omitempty"`
	BName     B          `json:"bname,omitempty"`
	Precision uint       `json:"precision,omitempty"`
	Allocs    []c12Alloc `json:"allocs"`
	Ops       []c12Op    `json:"ops"`
	// the handles are allocated at the same time, one goroutine each (as subscopes create their
	// metrics on first use), instead of one after the other
	ConcAlloc bool `json:"concurrent_alloc,omitempty"`
	// pool turnover: before handle number turnover_at is allocated, `turnover` further counters with
	// distinct tag sets (eight tags with values of turnover_len bytes) are allocated on the same
	// reporter and never used: a long allocation history that cycles the reporter's pools and caches
	// other reporters of the same process: reporters with these protocols (0 Compact, 1 Binary) are
	// created, in this order, BEFORE the reporter of the case and stay open while it runs; with
	// fresh_process the whole case runs in a process of its own (the harness re-executes itself in
	// replay mode), so that the first of them is the first reporter the process ever creates
	Before      []int `json:"reporters_before,omitempty"`
	Fresh       bool  `json:"fresh_process,omitempty"`
	Turnover    int `json:"turnover,omitempty"`
	TurnoverAt  int `json:"turnover_at,omitempty"`
	TurnoverLen int `json:"turnover_len,omitempty"`
}

// ---------------------------------------------------------------- real reporter, opened and inspected

type c12Bucket struct {
	size     int32
	id, name string
	upperV   float64
	upperD   time.Duration
}
type c12Handle struct {
	h       interface{}
	kind    int
	size    int32
	buckets []c12Bucket
	tags    []string // the handle's own tags as its pre-built metric holds them after all allocations (sorted pairs)
}

// one row of the table of metrics as they go on the wire (a handle, or one bucket of a histogram)
type c12Entry struct {
	Kind      int      `json:"kind"`
	Name      string   `json:"-"`
	Tags      []string `json:"-"` // k1 v1 k2 v2 ... sorted by key
	HasTags   bool     `json:"-"`
	HasBucket bool     `json:"bucket"`
	BucketID  string   `json:"-"`
	Bucket    string   `json:"-"`
	Size      int32    `json:"size"`
}

type c12Internal struct {
	names   [5]string
	tags    []string // sorted pairs
	sizes   [5]int32 // [0] unused
	buckets []c12Bucket
	maxSize int32
}

type c12Rep struct {
	r        m3.Reporter
	rv       reflect.Value
	free     int32
	ovh      int32
	handles  []c12Handle
	internal c12Internal
	idname   string
	bname    string
}

func c12Fac(proto int) thrift.TProtocolFactory {
	if proto == 1 {
		return thrift.NewTBinaryProtocolFactoryDefault()
	}
	return thrift.NewTCompactProtocolFactory()
}

func c12SortedPairs(m map[string]string) []string {
	keys := make([]string, 0, len(m))
	for k := range m {
		keys = append(keys, k)
	}
	sort.Strings(keys)
	out := make([]string, 0, 2*len(m))
	for _, k := range keys {
		out = append(out, k, m[k])
	}
	return out
}

func c12ReadBuckets(v reflect.Value) []c12Bucket {
	out := make([]c12Bucket, v.Len())
	for i := range out {
		b := v.Index(i)
		out[i] = c12Bucket{
			size:   int32(b.FieldByName("metric").Elem().FieldByName("size").Int()),
			id:     b.FieldByName("bucketID").String(),
			name:   b.FieldByName("bucket").String(),
			upperV: b.FieldByName("valueUpperBound").Float(),
			upperD: time.Duration(b.FieldByName("durationUpperBound").Int()),
		}
	}
	return out
}

func c12Buckets(a *c12Alloc) tally.Buckets {
	if a.Kind == 5 {
		d := make(tally.DurationBuckets, len(a.Buckets))
		for i, v := range a.Buckets {
			d[i] = time.Duration(v)
		}
		return d
	}
	v := make(tally.ValueBuckets, len(a.Buckets))
	for i, b := range a.Buckets {
		v[i] = math.Float64frombits(uint64(b))
	}
	return v
}

// c12Open creates the reporter of the case with the given packet limit, allocates the handles and
// reads the sizes.  err != nil: NewReporter refused the configuration.
func c12Open(c *c12Case, addr string, maxpkt int32) (rep *c12Rep, err error) {
	defer func() {
		if p := recover(); p != nil {
			err = fmt.Errorf("harness: reflection on the reporter failed: %v", p)
		}
	}()
	p := m3.Compact
	if c.Proto == 1 {
		p = m3.Binary
	}
	r, err := m3.NewReporter(m3.Options{
		HostPorts: []string{addr}, Service: string(c.Service), Env: string(c.Env), CommonTags: tagsOf(c.Common),
		IncludeHost:        c.InclHost,
		MaxPacketSizeBytes: maxpkt, Protocol: p, MaxQueueSize: 6*len(c.Ops) + 64,
		HistogramBucketIDName: string(c.IDName), HistogramBucketName: string(c.BName),
		HistogramBucketTagPrecision: c.Precision,
	})
	if err != nil {
		return nil, err
	}
	rv := reflect.ValueOf(r).Elem()
	rep = &c12Rep{r: r, rv: rv}
	rep.free = int32(rv.FieldByName("freeBytes").Int())
	rep.ovh = int32(rv.FieldByName("overheadBytes").Int())
	// the reporter's clock is set by a goroutine started at the end of NewReporter; reports made
	// before its first tick carry timestamp 0 (one byte instead of nine in Compact): wait for it,
	// so that timestamps take the room they take in production
	if nv := rv.FieldByName("now").FieldByName("v"); nv.IsValid() {
		for k := 0; k < 2000 && nv.Int() == 0; k++ {
			time.Sleep(50 * time.Microsecond)
		}
	}
	rep.idname = rv.FieldByName("bucketIDTagName").String()
	rep.bname = rv.FieldByName("bucketTagName").String()
	// the reporter's own metrics
	in := &rep.internal
	in.names[0] = "tally.internal.batch-size"
	in.buckets = c12ReadBuckets(rv.FieldByName("batchSizeHistogram").Elem().FieldByName("cachedValueBuckets"))
	for _, b := range in.buckets {
		if b.size > in.maxSize {
			in.maxSize = b.size
		}
	}
	for i, f := range []string{"numBatchesCounter", "numMetricsCounter", "numWriteErrorsCounter", "numTagCacheCounter"} {
		cm := rv.FieldByName(f).Elem()
		in.names[i+1] = cm.FieldByName("metric").FieldByName("Name").String()
		in.sizes[i+1] = int32(cm.FieldByName("size").Int())
		if in.sizes[i+1] > in.maxSize {
			in.maxSize = in.sizes[i+1]
		}
		if i == 0 {
			tv := cm.FieldByName("metric").FieldByName("Tags")
			m := map[string]string{}
			for j := 0; j < tv.Len(); j++ {
				m[tv.Index(j).FieldByName("Name").String()] = tv.Index(j).FieldByName("Value").String()
			}
			in.tags = c12SortedPairs(m)
		}
	}
	alloc := func(i int) interface{} {
		a := &c.Allocs[i]
		tags := tagsOf(a.Tags)
		switch a.Kind {
		case 1:
			return r.AllocateCounter(string(a.Name), tags)
		case 2:
			return r.AllocateGauge(string(a.Name), tags)
		case 3:
			return r.AllocateTimer(string(a.Name), tags)
		}
		return r.AllocateHistogram(string(a.Name), tags, c12Buckets(a))
	}
	hs := make([]interface{}, len(c.Allocs))
	if c.ConcAlloc {
		var wg sync.WaitGroup
		start := make(chan struct{})
		for i := range c.Allocs {
			wg.Add(1)
			go func(i int) {
				defer wg.Done()
				<-start
				hs[i] = alloc(i)
			}(i)
		}
		close(start)
		wg.Wait()
	} else {
		turnover := func() {
			pad := strings.Repeat("x", c.TurnoverLen)
			for i := 0; i < c.Turnover; i++ {
				t := make(map[string]string, 8)
				for k := 0; k < 8; k++ {
					t[fmt.Sprintf("tk%d", k)] = fmt.Sprintf("%06d.%d%s", i, k, pad)
				}
				r.AllocateCounter("turnover", t)
			}
		}
		for i := range c.Allocs {
			if i == c.TurnoverAt && c.Turnover > 0 {
				turnover()
			}
			hs[i] = alloc(i)
		}
		if c.TurnoverAt >= len(c.Allocs) && c.Turnover > 0 {
			turnover()
		}
	}
	for i := range c.Allocs {
		a := &c.Allocs[i]
		h := c12Handle{kind: a.Kind, h: hs[i]}
		v := reflect.ValueOf(h.h)
		var tv reflect.Value
		switch a.Kind {
		case 1, 2, 3:
			h.size = int32(v.FieldByName("size").Int())
			tv = v.FieldByName("metric").FieldByName("Tags")
		case 4:
			h.buckets = c12ReadBuckets(v.FieldByName("cachedValueBuckets"))
			tv = v.FieldByName("cachedValueBuckets")
		default:
			h.buckets = c12ReadBuckets(v.FieldByName("cachedDurationBuckets"))
			tv = v.FieldByName("cachedDurationBuckets")
		}
		if a.Kind >= 4 {
			if tv.Len() > 0 {
				tv = tv.Index(0).FieldByName("metric").Elem().FieldByName("metric").FieldByName("Tags")
			} else {
				tv = reflect.Value{}
			}
		}
		if tv.IsValid() {
			var pairs []string
			for j := 0; j < tv.Len(); j++ {
				pairs = append(pairs, tv.Index(j).FieldByName("Name").String(), tv.Index(j).FieldByName("Value").String())
			}
			h.tags = c12SortPairs(pairs)
		}
		rep.handles = append(rep.handles, h)
	}
	return rep, nil
}

// ---------------------------------------------------------------- loopback sink

// c12Sink is a UDP listener on a loopback port that can be closed and re-opened on the same
// port; datagrams are taken off the socket as they arrive (the socket buffer may be small).
type c12Sink struct {
	addr *net.UDPAddr
	conn *net.UDPConn
	ch   chan []byte
	wg   sync.WaitGroup
}

func c12Listen() (*c12Sink, error) {
	s := &c12Sink{addr: &net.UDPAddr{IP: net.IPv4(127, 0, 0, 1)}, ch: make(chan []byte, 1<<16)}
	if err := s.open(); err != nil {
		return nil, err
	}
	s.addr = s.conn.LocalAddr().(*net.UDPAddr)
	return s, nil
}
func (s *c12Sink) open() error {
	conn, err := net.ListenUDP("udp", s.addr)
	if err != nil {
		return err
	}
	conn.SetReadBuffer(32 << 20)
	s.conn = conn
	s.wg.Add(1)
	go func() {
		defer s.wg.Done()
		buf := make([]byte, 1<<17)
		for {
			n, _, err := conn.ReadFrom(buf)
			if err != nil {
				return
			}
			s.ch <- append([]byte{}, buf[:n]...)
		}
	}()
	return nil
}
func (s *c12Sink) close() {
	if s.conn != nil {
		s.conn.Close()
		s.wg.Wait()
		s.conn = nil
	}
}
func (s *c12Sink) reopen() error {
	if s.conn != nil {
		return nil
	}
	var err error
	for k := 0; k < 20; k++ {
		if err = s.open(); err == nil {
			return nil
		}
		time.Sleep(2 * time.Millisecond)
	}
	return err
}

// c12Idle waits until the reporter's queue is empty and its consumer has had time to emit
func c12Idle(rep *c12Rep) {
	ch := rep.rv.FieldByName("metCh")
	for k := 0; k < 3000 && ch.Len() > 0; k++ {
		time.Sleep(100 * time.Microsecond)
	}
	time.Sleep(4 * time.Millisecond)
}

// ---------------------------------------------------------------- one run

type c12Item struct {
	T        int   // table index; -1 flush marker
	V, Ts    int64 // value / timestamp (filled from the decoded datagram)
	internal int   // 0 user metric, 1..5 the reporter's own metric number internal-1
}
type c12Dgram struct {
	Seq int32 `json:"seq"`
	Len int   `json:"len"`
	N   int   `json:"n"`
}
type c12Result struct {
	MaxPkt   int32      `json:"max_packet"`
	Free     int32      `json:"free_bytes"`
	Ovh      int32      `json:"overhead_bytes"`
	Rejected string     `json:"rejected,omitempty"`
	Skipped  int        `json:"skipped_not_fitting"`
	Reported int        `json:"reported"`
	Flushes  int        `json:"flushes"`
	Dgrams   []c12Dgram `json:"datagrams"`
	Sizes    []c12Entry `json:"table"`
	Fault    bool       `json:"fault_stream,omitempty"`
	Reopen   string     `json:"reopen_failed,omitempty"`
	WriteErr int64      `json:"write_errors_reported_by_the_reporter,omitempty"`
	Missing  int        `json:"metrics_not_delivered,omitempty"`
	Empty    int        `json:"zero_byte_datagrams,omitempty"`
	Pred     string     `json:"-"`
	Fail     string     `json:"-"`
	Loss     bool       `json:"-"`
	table    []c12Entry
	stream   []c12Item
	exact    int // batches charged exactly freeBytes
}

func c12Decode(fac thrift.TProtocolFactory, pkt []byte) (seq int32, b *m3thrift.MetricBatch, err error) {
	rt, _ := customtransport.NewTBufferedReadTransport(bytes.NewBuffer(nil))
	rp := fac.GetProtocol(rt)
	rt.Write(pkt)
	name, typ, seq, err := rp.ReadMessageBegin()
	if err != nil {
		return 0, nil, err
	}
	if name != "emitMetricBatchV2" || typ != thrift.ONEWAY {
		return seq, nil, fmt.Errorf("message %q type %d", name, typ)
	}
	rt2, _ := customtransport.NewTBufferedReadTransport(bytes.NewBuffer(nil))
	rp2 := fac.GetProtocol(rt2)
	rt2.Write(pkt)
	h := &c16Handler{}
	if ok, err := m3thrift.NewM3Processor(h).Process(rp2, rp2); !ok || err != nil || h.got == nil {
		return seq, nil, fmt.Errorf("M3Processor.Process: %v %v", ok, err)
	}
	if rt2.RemainingBytes() != 0 {
		return seq, nil, fmt.Errorf("%d bytes after the message", rt2.RemainingBytes())
	}
	return seq, h.got, nil
}

func c12Value(m *m3thrift.Metric) (kind int, v int64) {
	switch m.Value.MetricType {
	case m3thrift.MetricType_COUNTER:
		return 1, m.Value.Count
	case m3thrift.MetricType_GAUGE:
		return 2, fbits(m.Value.Gauge)
	case m3thrift.MetricType_TIMER:
		return 3, m.Value.Timer
	}
	return int(m.Value.MetricType), 0
}

func c12WireTags(e *c12Entry, idname, bname string) []string {
	t := append([]string{}, e.Tags...)
	if e.HasBucket {
		t = append(t, idname, e.BucketID, bname, e.Bucket)
	}
	return t
}

// tags of a decoded metric as pairs sorted by key (stable: the wire order of equal keys is kept)
func c12DecodedTags(m *m3thrift.Metric) []string {
	idx := make([]int, len(m.Tags))
	for i := range idx {
		idx[i] = i
	}
	sort.SliceStable(idx, func(a, b int) bool { return m.Tags[idx[a]].Name < m.Tags[idx[b]].Name })
	out := make([]string, 0, 2*len(idx))
	for _, i := range idx {
		out = append(out, m.Tags[i].Name, m.Tags[i].Value)
	}
	return out
}
func c12SortPairs(p []string) []string {
	m := &m3thrift.Metric{}
	for i := 0; i+1 < len(p); i += 2 {
		m.Tags = append(m.Tags, m3thrift.MetricTag{Name: p[i], Value: p[i+1]})
	}
	return c12DecodedTags(m)
}
func c12StrsEq(a, b []string) bool {
	if len(a) != len(b) {
		return false
	}
	for i := range a {
		if a[i] != b[i] {
			return false
		}
	}
	return true
}

// final: the case has been retried already, an incomplete stream is no longer put down to UDP loss
func c12Run(c *c12Case, restricted, final bool) (res c12Result) {
	fail := func(pred, f string, a ...interface{}) {
		if res.Fail == "" {
			res.Pred, res.Fail = pred, fmt.Sprintf(f, a...)
		}
	}
	sink, err := c12Listen()
	if err != nil {
		res.Rejected = "harness: " + err.Error()
		res.Loss = true
		return
	}
	defer sink.close()
	addr := sink.addr.String()
	if len(c.Before) > 0 {
		pname := map[int]string{0: "Compact", 1: "Binary"}
		var names []string
		for k, bp := range c.Before {
			p := m3.Compact
			if bp == 1 {
				p = m3.Binary
			}
			br, err := m3.NewReporter(m3.Options{HostPorts: []string{addr}, Service: "before", Env: "e", Protocol: p,
				CommonTags: map[string]string{"reporter": fmt.Sprintf("before%d", k)}})
			if err != nil {
				res.Rejected = "harness: reporter before the case: " + err.Error()
				return
			}
			br.AllocateCounter("before.counter", map[string]string{"k": "v"}) // allocated, never reported: it sends nothing
			defer br.Close()
			names = append(names, pname[bp])
		}
		defer func() {
			if res.Fail == "" {
				return
			}
			longest := 0
			for _, d := range res.Dgrams {
				if d.Len > longest {
					longest = d.Len
				}
			}
			extra := ""
			if longest > int(res.MaxPkt) && res.MaxPkt > 0 {
				extra = fmt.Sprintf("; longest datagram of this reporter: %d bytes for MaxPacketSizeBytes %d", longest, res.MaxPkt)
			}
			where := "in this process"
			if c.Fresh {
				where = "in this process (a fresh one: they are the first reporters it ever created)"
			}
			res.Fail = fmt.Sprintf("reporter #%d (%s), created after %s reporter(s) %s: %s%s", len(c.Before)+1, pname[c.Proto], strings.Join(names, ", "), where, res.Fail, extra)
		}()
	}
	for _, op := range c.Ops {
		if op.H <= -2 {
			res.Fault = true
		}
	}

	// phase 1: a probe reporter with the largest limit, to read overheadBytes and the charges
	maxpkt := c.MaxPkt
	if maxpkt <= 0 {
		probe, err := c12Open(c, addr, 65000)
		if err != nil {
			res.Rejected = err.Error()
			return
		}
		sum, j := int64(0), 0
		for _, op := range c.Ops {
			if j >= c.FitJ {
				break
			}
			if op.H < 0 || op.H >= len(probe.handles) {
				continue
			}
			h := &probe.handles[op.H]
			if len(h.buckets) > 0 {
				sum += int64(h.buckets[op.B%len(h.buckets)].size)
			} else {
				sum += int64(h.size)
			}
			j++
		}
		probe.r.Close()
		m := int64(probe.ovh) + sum + int64(c.FitDelta)
		if m > 65000 {
			m = 65000
		}
		if m < 1 {
			m = 1
		}
		maxpkt = int32(m)
	}
	res.MaxPkt = maxpkt

	// phase 2: the reporter under test
	rep, err := c12Open(c, addr, maxpkt)
	if err != nil {
		res.Rejected = err.Error()
		if strings.HasPrefix(res.Rejected, "harness:") {
			fail("no_drop_no_dup", "%s", res.Rejected)
		}
		return
	}
	res.Free, res.Ovh = rep.free, rep.ovh
	if rep.free <= 0 {
		fail("datagram_le_max", "NewReporter accepted MaxPacketSizeBytes %d with freeBytes %d", maxpkt, rep.free)
	}
	// charged >= actual, handle by handle (every bucket of every histogram, reported or not): what
	// a report through the handle occupies NOW (largest count / timer value, current time) measured
	// with the vendored encoder, against the size kept in the handle
	{
		hcalc := &customtransport.TCalcTransport{}
		hp := c12Fac(c.Proto).GetProtocol(hcalc)
		now := time.Now().UnixNano()
		for hi := range rep.handles {
			a, h := &c.Allocs[hi], &rep.handles[hi]
			// the tags are those the handle's pre-built metric holds NOW (after every allocation of
			// the case): they are what a report through the handle puts on the wire
			m := m3thrift.Metric{Name: string(a.Name), Timestamp: now}
			for j := 0; j+1 < len(h.tags); j += 2 {
				m.Tags = append(m.Tags, m3thrift.MetricTag{Name: h.tags[j], Value: h.tags[j+1]})
			}
			moved := ""
			if want := c12SortedPairs(tagsOf(a.Tags)); !c12StrsEq(want, h.tags) {
				moved = fmt.Sprintf("; it was allocated with tags %+.120q and now holds %+.160q", want, h.tags)
				if c.Turnover > 0 {
					moved += fmt.Sprintf(" (%d counters with other tag sets were allocated on the reporter after handle %d)", c.Turnover, c.TurnoverAt-1)
				}
			}
			switch a.Kind {
			case 2:
				m.Value = m3thrift.MetricValue{MetricType: m3thrift.MetricType_GAUGE, Gauge: math.MaxFloat64}
			case 3:
				m.Value = m3thrift.MetricValue{MetricType: m3thrift.MetricType_TIMER, Timer: math.MaxInt64}
			default:
				m.Value = m3thrift.MetricValue{MetricType: m3thrift.MetricType_COUNTER, Count: math.MaxInt64}
			}
			if len(h.buckets) == 0 {
				hcalc.ResetCount()
				m.Write(hp)
				if l := hcalc.GetCount(); l > h.size {
					same := ""
					for oj := range c.Allocs {
						if o := &c.Allocs[oj]; oj != hi && o.Name == a.Name && c12StrsEq(c12SortedPairs(tagsOf(o.Tags)), c12SortedPairs(tagsOf(a.Tags))) {
							same += fmt.Sprintf(" handle %d (kind %d)", oj, o.Kind)
						}
					}
					if same != "" {
						same = "; same name and tag set as" + same + ", allocated in index order"
					}
					fail("charged_ge_actual", "handle %d (kind %d, name %+.40q, %d tags) was charged %d bytes; a report of the largest value through it now occupies %d%s", hi, a.Kind, a.Name, len(a.Tags), h.size, l, same+moved)
				} else if moved != "" {
					fail("no_drop_no_dup", "handle %d (kind %d, name %+.40q): a report through it is sent with other tags than it was allocated with%s", hi, a.Kind, a.Name, moved)
				}
				continue
			}
			own := append([]m3thrift.MetricTag{}, m.Tags...)
			for bi, b := range h.buckets {
				m.Tags = append(append([]m3thrift.MetricTag{}, own...),
					m3thrift.MetricTag{Name: rep.idname, Value: b.id}, m3thrift.MetricTag{Name: rep.bname, Value: b.name})
				hcalc.ResetCount()
				m.Write(hp)
				if l := hcalc.GetCount(); l > b.size {
					how := "one after the other"
					if c.ConcAlloc {
						how = "at the same time, one goroutine each"
					}
					fail("charged_ge_actual", "histogram handle %d (name %+.40q, %d tags; the %d handles of the case were allocated %s): bucket %d (%s=%s %s=%s) was charged %d bytes; a report of the largest sample count through it now occupies %d%s",
						hi, a.Name, len(a.Tags), len(rep.handles), how, bi, rep.idname, b.id, rep.bname, b.name, b.size, l, moved)
				}
			}
			if moved != "" {
				fail("no_drop_no_dup", "histogram handle %d (name %+.40q): its buckets are sent with other tags than it was allocated with%s", hi, a.Name, moved)
			}
		}
	}
	tindex := map[[2]int]int{}
	entry := func(hi, bi int) int {
		k := [2]int{hi, bi}
		if i, ok := tindex[k]; ok {
			return i
		}
		var e c12Entry
		if hi >= 0 {
			a := &c.Allocs[hi]
			h := &rep.handles[hi]
			e = c12Entry{Kind: a.Kind, Name: string(a.Name), Tags: c12SortedPairs(tagsOf(a.Tags)), HasTags: len(a.Tags) > 0, Size: h.size}
			if len(h.buckets) > 0 {
				b := h.buckets[bi]
				e.Kind, e.HasTags, e.HasBucket, e.BucketID, e.Bucket, e.Size = 1, true, true, b.id, b.name, b.size
			}
		} else if bi < 0 { // the reporter's own counters: -1 .. -4
			e = c12Entry{Kind: 1, Name: rep.internal.names[-bi], Tags: rep.internal.tags, HasTags: true, Size: rep.internal.sizes[-bi]}
		} else {
			b := rep.internal.buckets[bi]
			e = c12Entry{Kind: 1, Name: rep.internal.names[0], Tags: rep.internal.tags, HasTags: true, HasBucket: true, BucketID: b.id, Bucket: b.name, Size: b.size}
		}
		res.table = append(res.table, e)
		tindex[k] = len(res.table) - 1
		return len(res.table) - 1
	}
	for _, op := range c.Ops {
		switch op.H {
		case -2:
			sink.close()
			continue
		case -3:
			if err := sink.reopen(); err != nil {
				res.Reopen = err.Error() // the port was taken meanwhile: the rest of the history is lost, no alarm
			}
			continue
		case -4:
			c12Idle(rep)
			continue
		}
		if op.H < 0 {
			if restricted || rep.internal.maxSize > rep.free {
				continue // the reporter's own metrics would not fit on their own: outside the hypotheses
			}
			rep.r.Flush()
			res.Flushes++
			for k := 1; k <= 5; k++ {
				res.stream = append(res.stream, c12Item{T: -2, internal: k})
			}
			res.stream = append(res.stream, c12Item{T: -1})
			continue
		}
		if op.H >= len(rep.handles) {
			continue
		}
		h := &rep.handles[op.H]
		bi := 0
		if len(h.buckets) > 0 {
			bi = op.B % len(h.buckets)
		}
		t := entry(op.H, bi)
		if res.table[t].Size > rep.free {
			res.Skipped++ // does not fit on its own: outside the hypotheses
			continue
		}
		switch h.kind {
		case 1:
			h.h.(tally.CachedCount).ReportCount(op.V)
		case 2:
			h.h.(tally.CachedGauge).ReportGauge(math.Float64frombits(uint64(op.V)))
		case 3:
			h.h.(tally.CachedTimer).ReportTimer(time.Duration(op.V))
		case 4:
			h.h.(tally.CachedHistogram).ValueBucket(0, h.buckets[bi].upperV).ReportSamples(op.V)
		default:
			h.h.(tally.CachedHistogram).DurationBucket(0, h.buckets[bi].upperD).ReportSamples(op.V)
		}
		res.Reported++
		res.stream = append(res.stream, c12Item{T: t, V: op.V})
	}
	rep.r.Close()

	// Close() has returned: every datagram has been sent.  Collect until the expected number of
	// metrics has arrived (or nothing arrives for 250 ms).
	expect := 0
	for _, it := range res.stream {
		if it.T != -1 {
			expect++
		}
	}
	fac := c12Fac(c.Proto)
	type pkt struct {
		seq int32
		raw []byte
		b   *m3thrift.MetricBatch
	}
	var pkts []pkt
	got := 0
	timer := time.NewTimer(time.Hour)
read:
	for {
		wait := 250 * time.Millisecond
		if res.Fault {
			wait = 60 * time.Millisecond // how much arrives is not known
		}
		if got >= expect {
			wait = 2 * time.Millisecond // everything has arrived: look once more for anything extra
		}
		if !timer.Stop() {
			select {
			case <-timer.C:
			default:
			}
		}
		timer.Reset(wait)
		var raw []byte
		select {
		case raw = <-sink.ch:
		case <-timer.C:
			break read
		}
		if len(raw) == 0 && res.Fault {
			// after a failed send reporter.flush ends the message with Transport.Flush(), which
			// sends the (emptied) buffer: a datagram of zero bytes.  It carries nothing.
			res.Empty++
			continue
		}
		seq, b, err := c12Decode(fac, raw)
		if err != nil {
			fail("no_drop_no_dup", "datagram %d (%d bytes) does not decode: %v", len(pkts), len(raw), err)
			res.Dgrams = append(res.Dgrams, c12Dgram{Seq: seq, Len: len(raw)})
			return
		}
		pkts = append(pkts, pkt{seq, raw, b})
		got += len(b.Metrics)
	}
	sort.SliceStable(pkts, func(a, b int) bool { return pkts[a].seq < pkts[b].seq })
	for _, p := range pkts {
		res.Dgrams = append(res.Dgrams, c12Dgram{Seq: p.seq, Len: len(p.raw), N: len(p.b.Metrics)})
	}
	if got < expect && !res.Fault {
		res.Loss = true
	}
	for i, p := range pkts {
		if p.seq != int32(i+1) && !res.Fault {
			res.Loss = true
		}
	}

	// ---- predicates
	calc := &customtransport.TCalcTransport{}
	cp := fac.GetProtocol(calc)
	measure := func(m *m3thrift.Metric) int32 {
		calc.ResetCount()
		m.Write(cp)
		return calc.GetCount()
	}
	wantCommon := map[string]string{}
	for k, v := range tagsOf(c.Common) {
		wantCommon[k] = v
	}
	if wantCommon["service"] == "" {
		wantCommon["service"] = string(c.Service)
	}
	if wantCommon["env"] == "" {
		wantCommon["env"] = string(c.Env)
	}
	if c.InclHost && wantCommon["host"] == "" {
		wantCommon["host"] = c13Hostname()
	}
	if res.Fault {
		// what was received must be a subsequence of what was reported (every report of a fault
		// case has a unique value; the reporter's own metrics are matched by name), and every
		// datagram on its own must obey the size rules and lie between two flush markers
		pos, seg := 0, 0
		for di, p := range pkts {
			if len(p.raw) > int(maxpkt) {
				fail("datagram_le_max", "datagram with sequence id %d (number %d of %d received) has %d bytes, MaxPacketSizeBytes is %d (%d metrics; freeBytes %d, overheadBytes %d); the sink had been closed and re-opened",
					p.seq, di+1, len(pkts), len(p.raw), maxpkt, len(p.b.Metrics), rep.free, rep.ovh)
			}
			if len(p.b.Metrics) == 0 {
				fail("no_drop_no_dup", "datagram with sequence id %d carries no metric", p.seq)
			}
			dseg := -1
			var sumLen, sumCharge int64
			for mi := range p.b.Metrics {
				m := &p.b.Metrics[mi]
				kind, v := c12Value(m)
				q, sg, found := pos, seg, false
				for ; q < len(res.stream); q++ {
					it := &res.stream[q]
					if it.T == -1 {
						sg++
						continue
					}
					if it.internal > 0 {
						found = m.Name == rep.internal.names[it.internal-1]
					} else if e := &res.table[it.T]; m.Name == e.Name && kind == e.Kind && v == it.V {
						found = c12StrsEq(c12DecodedTags(m), c12SortPairs(c12WireTags(e, rep.idname, rep.bname)))
					}
					if found {
						break
					}
				}
				if !found {
					fail("no_drop_no_dup", "datagram with sequence id %d metric %d (%s) is not among the reports made after the metric delivered before it: delivered twice or out of order (sink closed and re-opened during the run)",
						p.seq, mi+1, c16Show(m))
					return
				}
				it := &res.stream[q]
				if it.internal == 1 {
					bi := -1
					for _, t := range m.Tags {
						if t.Name == rep.idname {
							for k, b := range rep.internal.buckets {
								if b.id == t.Value {
									bi = k
								}
							}
						}
					}
					if bi < 0 {
						fail("no_drop_no_dup", "datagram with sequence id %d metric %d: %s carries no known bucket id", p.seq, mi+1, c16Show(m))
						return
					}
					it.T = entry(-1, bi)
				} else if it.internal > 1 {
					it.T = entry(-1, -(it.internal - 1))
					if it.internal == 4 {
						res.WriteErr += v
					}
				}
				e := &res.table[it.T]
				if dseg >= 0 && sg != dseg {
					fail("split_only_when_full", "datagram with sequence id %d spans a Flush(): metric %d of it was reported after a flush that followed its first metric", p.seq, mi+1)
				}
				dseg = sg
				l := measure(m)
				if l > e.Size {
					fail("charged_ge_actual", "datagram with sequence id %d metric %d (%s) occupies %d bytes, its handle was charged %d", p.seq, mi+1, c16Show(m), l, e.Size)
				}
				sumLen += int64(l)
				sumCharge += int64(e.Size)
				pos, seg = q+1, sg
			}
			if int64(len(p.raw))-sumLen > int64(rep.ovh) {
				fail("envelope_le_allowance", "datagram with sequence id %d: %d bytes around %d bytes of metrics, overheadBytes is %d", p.seq, int64(len(p.raw))-sumLen, sumLen, rep.ovh)
			}
			if sumCharge > int64(rep.free) {
				fail("split_only_when_full", "datagram with sequence id %d: its %d metrics were charged %d bytes, freeBytes is %d (sink closed and re-opened during the run)",
					p.seq, len(p.b.Metrics), sumCharge, rep.free)
			}
		}
		res.Missing = expect - got
		res.Sizes = res.table
		return
	}
	pos := 0 // position in res.stream
	for di, p := range pkts {
		if len(p.raw) > int(maxpkt) {
			fail("datagram_le_max", "datagram %d of %d has %d bytes, MaxPacketSizeBytes is %d (%d metrics; freeBytes %d, overheadBytes %d)",
				di+1, len(pkts), len(p.raw), maxpkt, len(p.b.Metrics), rep.free, rep.ovh)
		}
		if len(p.b.Metrics) == 0 {
			fail("no_drop_no_dup", "datagram %d carries no metric", di+1)
		}
		cm := map[string]string{}
		for _, t := range p.b.CommonTags {
			cm[t.Name] = t.Value
		}
		if !c12StrsEq(c12SortedPairs(cm), c12SortedPairs(wantCommon)) || len(cm) != len(p.b.CommonTags) {
			fail("no_drop_no_dup", "datagram %d carries common tags %q, configured %q", di+1, c12SortedPairs(cm), c12SortedPairs(wantCommon))
		}
		var sumLen, sumCharge int64
		first := pos
		for mi := range p.b.Metrics {
			m := &p.b.Metrics[mi]
			// flush markers between metrics of one datagram: the batch spans a Flush
			for pos < len(res.stream) && res.stream[pos].T == -1 {
				if mi > 0 {
					fail("split_only_when_full", "datagram %d spans a Flush(): metric %d of it was reported after the flush", di+1, mi+1)
				}
				pos++
			}
			if pos >= len(res.stream) {
				fail("no_drop_no_dup", "datagram %d metric %d (%s): more metrics arrived than were reported (%d)", di+1, mi+1, c16Show(m), expect)
				return
			}
			it := &res.stream[pos]
			kind, v := c12Value(m)
			if it.internal > 0 {
				if m.Name != rep.internal.names[it.internal-1] {
					if !res.Loss || final {
						fail("no_drop_no_dup", "datagram %d metric %d is %s where the reporter's own %s was queued", di+1, mi+1, c16Show(m), rep.internal.names[it.internal-1])
					}
					return
				}
				if it.internal == 1 {
					bi := -1
					for _, t := range m.Tags {
						if t.Name == rep.idname {
							for k, b := range rep.internal.buckets {
								if b.id == t.Value {
									bi = k
								}
							}
						}
					}
					if bi < 0 {
						fail("no_drop_no_dup", "datagram %d metric %d: %s carries no known bucket id", di+1, mi+1, c16Show(m))
						return
					}
					it.T = entry(-1, bi)
				} else {
					it.T = entry(-1, -(it.internal - 1))
				}
			}
			e := &res.table[it.T]
			it.Ts = m.Timestamp
			if it.internal > 0 {
				it.V = v
			}
			if m.Name != e.Name || kind != e.Kind || v != it.V || !c12StrsEq(c12DecodedTags(m), c12SortPairs(c12WireTags(e, rep.idname, rep.bname))) ||
				(m.Tags == nil) != (!e.HasTags && !e.HasBucket) {
				if !res.Loss || final {
					fail("no_drop_no_dup", "datagram %d metric %d is %s; report number %d was name %+.60q kind %d value %d tags %+.80q", di+1, mi+1, c16Show(m),
						pos+1, e.Name, e.Kind, it.V, c12WireTags(e, rep.idname, rep.bname))
				}
				return
			}
			l := measure(m)
			if l > e.Size {
				fail("charged_ge_actual", "datagram %d metric %d (%s) occupies %d bytes, its handle was charged %d", di+1, mi+1, c16Show(m), l, e.Size)
			}
			sumLen += int64(l)
			sumCharge += int64(e.Size)
			pos++
		}
		if !restricted && int64(len(p.raw))-sumLen > int64(rep.ovh) {
			fail("envelope_le_allowance", "datagram %d: %d bytes around %d bytes of metrics, overheadBytes (allowance + empty batch with the common tags) is %d",
				di+1, int64(len(p.raw))-sumLen, sumLen, rep.ovh)
		}
		if sumCharge > int64(rep.free) {
			fail("split_only_when_full", "datagram %d: its %d metrics were charged %d bytes, freeBytes is %d", di+1, len(p.b.Metrics), sumCharge, rep.free)
		}
		if sumCharge == int64(rep.free) {
			res.exact++
		}
		// why did this batch end?  a flush marker follows, the queue ends, or the next metric did not fit
		if pos < len(res.stream) && res.stream[pos].T != -1 {
			nx := res.stream[pos]
			var nsz int32
			if nx.internal == 0 {
				nsz = res.table[nx.T].Size
			} else if nx.internal > 1 {
				nsz = rep.internal.sizes[nx.internal-1]
			} else {
				nsz = -1 // bucket of the batch-size histogram: known once decoded
				if di+1 < len(pkts) && len(pkts[di+1].b.Metrics) > 0 {
					nsz = 0
					for _, t := range pkts[di+1].b.Metrics[0].Tags {
						if t.Name == rep.idname {
							for _, b := range rep.internal.buckets {
								if b.id == t.Value {
									nsz = b.size
								}
							}
						}
					}
				}
			}
			if nsz >= 0 && sumCharge+int64(nsz) <= int64(rep.free) && (!res.Loss || final) {
				fail("split_only_when_full", "datagram %d ends after %d bytes charged although the next metric (charged %d) fits into freeBytes %d and no Flush() lies between (first report of the datagram: %d)",
					di+1, sumCharge, nsz, rep.free, first+1)
			}
		}
	}
	for pos < len(res.stream) && res.stream[pos].T == -1 {
		pos++
	}
	if pos < len(res.stream) && (!res.Loss || final) {
		fail("no_drop_no_dup", "%d metrics were reported, %d arrived in %d datagrams (the reporter was closed and every datagram read)", expect, got, len(pkts))
	}
	res.Sizes = res.table
	return
}

// ---------------------------------------------------------------- Coq term

func c12Term(idx int, c *c12Case, res *c12Result, idname, bname string) string {
	var in, obs []Ev
	common := map[string]string{}
	for k, v := range tagsOf(c.Common) {
		common[k] = v
	}
	if common["service"] == "" {
		common["service"] = string(c.Service)
	}
	if common["env"] == "" {
		common["env"] = string(c.Env)
	}
	if c.InclHost && common["host"] == "" {
		common["host"] = c13Hostname()
	}
	in = append(in, Ev{K: 1, S: append([]string{idname, bname}, c12SortedPairs(common)...)})
	obs = append(obs, Ev{K: 1, I: []int64{int64(res.Free), int64(res.Ovh)}})
	for _, e := range res.table {
		s := []string{e.Name}
		if e.HasBucket {
			s = append(s, e.BucketID, e.Bucket)
		}
		s = append(s, e.Tags...)
		in = append(in, Ev{K: 2, I: []int64{int64(e.Kind), b2i(e.HasTags), b2i(e.HasBucket)}, S: s})
		obs = append(obs, Ev{K: 2, I: []int64{int64(e.Size)}})
	}
	for _, it := range res.stream {
		if it.T == -1 {
			in = append(in, Ev{K: 4})
			continue
		}
		var f uint32
		if res.table[it.T].Kind == 2 {
			f = 2
		}
		in = append(in, Ev{K: 3, I: []int64{int64(it.T), it.V, it.Ts}, F: f})
	}
	for _, d := range res.Dgrams {
		obs = append(obs, Ev{K: 3, I: []int64{int64(d.Seq), int64(d.Len), int64(d.N)}})
	}
	return gcase(idx, []int64{int64(c.Proto), int64(res.MaxPkt)}, in, obs)
}

// ---------------------------------------------------------------- generator

const c12Alnum = "abcdefghijklmnopqrstuvwxyzABCDEFGHIJKLMNOPQRSTUVWXYZ0123456789_.-"

func c12Str(r *Rng, n int) B {
	b := make([]byte, n)
	for i := range b {
		b[i] = c12Alnum[r.Intn(len(c12Alnum))]
	}
	return B(b)
}

// lengths around the boundaries of the Compact length varint (127/128) up to the 600 of the property
func c12Len(r *Rng, short bool) int {
	switch x := r.Intn(100); {
	case short || x < 55:
		return 1 + r.Intn(24)
	case x < 80:
		return 25 + r.Intn(80)
	case x < 90:
		return []int{126, 127, 128, 129, 130}[r.Intn(5)]
	default:
		return 131 + r.Intn(470)
	}
}

func c12TagMap(r *Rng, max int, short bool) map[B]B {
	n := r.Intn(max + 1)
	if n == 0 {
		if r.Bool() {
			return nil
		}
		return map[B]B{}
	}
	m := map[B]B{}
	for i := 0; i < n; i++ {
		k := B(fmt.Sprintf("k%d", i)) + c12Str(r, c12Len(r, true)-1)
		if r.Chance(4) && !short {
			k = B(fmt.Sprintf("k%d", i)) + c12Str(r, 126+r.Intn(4))
		}
		m[k] = c12Str(r, c12Len(r, short || r.Chance(85)))
	}
	return m
}

var c12Ints = []int64{0, 1, -1, 63, 64, -64, -65, 8191, 8192, 1 << 20, -(1 << 27), 1 << 34, 1 << 41, -(1 << 48), 1 << 55, 1<<55 - 1, 1 << 62, 1<<62 - 1, -(1 << 62) - 1,
	math.MaxInt64, math.MinInt64, math.MaxInt64 - 1, 1234567}

func c12Gen(r *Rng, i int, thorough, restricted bool) c12Case {
	c := c12Case{Proto: i % 2, Service: c12Str(r, 1+r.Intn(12)), Env: c12Str(r, 1+r.Intn(8))}
	if restricted {
		c.Proto = 0
	}
	if r.Chance(60) {
		c.Common = c12TagMap(r, 4, r.Chance(80))
		if r.Chance(10) {
			if c.Common == nil {
				c.Common = map[B]B{}
			}
			c.Common["service"] = c12Str(r, 1+r.Intn(20))
		}
		if r.Chance(10) {
			if c.Common == nil {
				c.Common = map[B]B{}
			}
			c.Common["env"] = c12Str(r, 1+r.Intn(20))
		}
	}
	if r.Chance(30) {
		c.IDName = c12Str(r, 1+r.Intn(16))
		c.BName = "b" + c12Str(r, r.Intn(16))
		if r.Chance(15) {
			c.IDName = c12Str(r, 126+r.Intn(5))
		}
		if c.IDName == c.BName {
			c.BName += "x"
		}
	}
	if r.Chance(30) {
		c.Precision = uint([]int{1, 2, 3, 9, 12}[r.Intn(5)])
	}
	// handles
	na := 1 + r.Intn(6)
	big := r.Chance(12) // a case of large metrics (names up to 600 bytes, up to 8 tags)
	for k := 0; k < na; k++ {
		a := c12Alloc{Kind: 1 + r.Intn(5)}
		if restricted {
			a.Kind = []int{1, 3}[r.Intn(2)]
		}
		a.Name = c12Str(r, c12Len(r, !big && r.Chance(70)))
		a.Tags = c12TagMap(r, 8, !big)
		if !big && r.Chance(60) {
			a.Tags = c12TagMap(r, 2, true)
		}
		if a.Kind >= 4 {
			nb := 1 + r.Intn(5)
			if r.Chance(10) {
				nb = 14 + r.Intn(4)
			}
			if a.Kind == 4 {
				v := -50.0 + float64(r.Intn(100))
				for j := 0; j < nb; j++ {
					a.Buckets = append(a.Buckets, fbits(v))
					v += []float64{0.001, 0.5, 1, 10, 1e6, 12345.678}[r.Intn(6)]
				}
			} else {
				d := int64(r.Intn(3)) * int64(time.Millisecond)
				for j := 0; j < nb; j++ {
					a.Buckets = append(a.Buckets, d)
					d += []int64{1, int64(time.Microsecond) * 250, int64(time.Millisecond), int64(time.Second) * 90, int64(time.Hour) * 30}[r.Intn(5)]
				}
			}
		}
		c.Allocs = append(c.Allocs, a)
	}
	// one id for several kinds: a counter, a gauge and a timer (sometimes a histogram too) with the
	// SAME name and the SAME tag set, allocated in a random order ("every mixture of counters,
	// gauges, timers and histogram buckets, every name and tag set": nothing says that a name and
	// tag set belongs to one kind only); each kind must be charged for its own encoding
	if !restricted && r.Chance(35) {
		name, tags := c12Str(r, c12Len(r, true)), c12TagMap(r, 4, true)
		if r.Chance(30) {
			base := c.Allocs[r.Intn(len(c.Allocs))]
			name, tags = base.Name, base.Tags
		}
		kinds := []int{1, 2, 3}
		if r.Chance(25) {
			kinds = append(kinds, 4)
		}
		for k := len(kinds) - 1; k > 0; k-- {
			j := r.Intn(k + 1)
			kinds[k], kinds[j] = kinds[j], kinds[k]
		}
		for _, k := range kinds[:2+r.Intn(len(kinds)-1)] {
			a := c12Alloc{Kind: k, Name: name, Tags: tags}
			if k == 4 {
				a.Buckets = []int64{fbits(0), fbits(1), fbits(10)}
			}
			c.Allocs = append(c.Allocs, a)
		}
		na = len(c.Allocs)
	}
	value := func(h int) int64 {
		switch c.Allocs[h].Kind {
		case 2:
			if restricted {
				return fbits(1.5)
			}
			return fbits(r.F64())
		default:
			if restricted {
				return int64(r.Intn(1<<20)) - 1<<19
			}
			if r.Chance(70) {
				return c12Ints[r.Intn(len(c12Ints))]
			}
			return int64(r.U64()) >> uint(r.Intn(64))
		}
	}
	nops := 8 + r.Intn(70)
	if thorough && r.Chance(20) {
		nops = 100 + r.Intn(500)
	}
	mode := r.Intn(100)
	switch {
	case mode < 35:
		// periodic: a block of p reports repeated; fitted to one block exactly (or one byte off)
		p := 1 + r.Intn(12)
		if r.Chance(15) {
			p = 14 + r.Intn(4) // around the 15-element list header of the Compact protocol
		}
		var block []c12Op
		for k := 0; k < p; k++ {
			h := r.Intn(na)
			block = append(block, c12Op{H: h, B: r.Intn(32), V: value(h)})
		}
		reps := 2 + r.Intn(8)
		if big {
			reps = 2 + r.Intn(3)
		}
		for k := 0; k < reps; k++ {
			for _, o := range block {
				if r.Chance(50) {
					o.V = value(o.H)
				}
				c.Ops = append(c.Ops, o)
			}
			if r.Chance(8) && !restricted {
				c.Ops = append(c.Ops, c12Op{H: -1})
			}
		}
		c.FitJ, c.FitDelta = p, []int{0, 0, 0, 0, -1, 1}[r.Intn(6)]
	default:
		for k := 0; k < nops; k++ {
			if r.Chance(6) && !restricted {
				c.Ops = append(c.Ops, c12Op{H: -1})
				continue
			}
			h := r.Intn(na)
			c.Ops = append(c.Ops, c12Op{H: h, B: r.Intn(32), V: value(h)})
		}
		switch {
		case mode < 65:
			// fitted to the first j reports
			c.FitJ = 1 + r.Intn(20)
			if r.Chance(20) {
				c.FitJ = 1
			}
			c.FitDelta = []int{0, 0, 0, -1, 1, 2, 7, -3}[r.Intn(8)]
		case mode < 72:
			// just above the overhead: nothing or next to nothing fits; and below it: refused
			c.FitJ, c.FitDelta = 0, []int{1, 2, 30, 45, 64, 0, -1, -20}[r.Intn(8)]
		default:
			c.MaxPkt = []int32{100, 200, 256, 300, 512, 1000, 1440, 1500, 4096, 8192, 32768, 65000}[r.Intn(12)]
			if r.Chance(30) {
				c.MaxPkt = int32(90 + r.Intn(3000))
			}
		}
	}
	if big && c.MaxPkt == 0 && r.Chance(40) {
		// large packets: many large metrics
		c.MaxPkt = []int32{16384, 32768, 65000, 50000}[r.Intn(4)]
		for len(c.Ops) < 150 {
			h := r.Intn(na)
			c.Ops = append(c.Ops, c12Op{H: h, B: r.Intn(32), V: value(h)})
		}
	}
	return c
}

// ---------------------------------------------------------------- concurrent allocation

// c12GenConc: several histograms (and a small counter) allocated at the same time from one
// goroutine each, with tag sets of very different encoded size (none, a few short, up to eight
// long ones); then every bucket is reported with a ten-byte sample count, mixed with the small
// counter so that packets fill up closely.  The property speaks of "every mixture of counters,
// gauges, timers and histogram buckets, every name and tag set" without restricting who
// allocates when.
func c12GenConc(r *Rng, i int, thorough bool) c12Case {
	c := c12Case{Proto: i % 2, Service: c12Str(r, 1+r.Intn(6)), Env: c12Str(r, 1+r.Intn(6)), ConcAlloc: true}
	c.Allocs = append(c.Allocs, c12Alloc{Kind: 1, Name: "c"})
	nh := 4 + r.Intn(5)
	for k := 0; k < nh; k++ {
		a := c12Alloc{Kind: 4 + r.Intn(2), Name: B(fmt.Sprintf("h%d", k)) + c12Str(r, r.Intn(12))}
		switch k % 3 {
		case 0:
			a.Tags = map[B]B{}
			for j, nt := 0, 5+r.Intn(4); j < nt; j++ {
				a.Tags[B(fmt.Sprintf("tagname%d", j))] = c12Str(r, 30+r.Intn(40))
			}
		case 1:
			// no tags
		default:
			a.Tags = c12TagMap(r, 3, true)
		}
		nb := 16 + r.Intn(24)
		if thorough && r.Chance(30) {
			nb = 40 + r.Intn(30)
		}
		if a.Kind == 4 {
			for j := 0; j < nb; j++ {
				a.Buckets = append(a.Buckets, fbits(float64(j)))
			}
		} else {
			for j := 0; j < nb; j++ {
				a.Buckets = append(a.Buckets, int64(j)*int64(time.Millisecond))
			}
		}
		c.Allocs = append(c.Allocs, a)
	}
	for h := 1; h < len(c.Allocs); h++ {
		for b := 0; b <= len(c.Allocs[h].Buckets); b++ {
			c.Ops = append(c.Ops, c12Op{H: h, B: b, V: math.MaxInt64 - int64(r.Intn(1000))})
			for k := r.Intn(4); k > 0; k-- {
				c.Ops = append(c.Ops, c12Op{H: 0, V: math.MaxInt64})
			}
		}
		if r.Chance(30) {
			c.Ops = append(c.Ops, c12Op{H: -1})
		}
	}
	c.MaxPkt = []int32{1440, 1440, 2000, 4096}[r.Intn(4)]
	c.InclHost = i%4 == 1 || i%4 == 2 // the host name as one more common tag, in both protocols
	return c
}

// ---------------------------------------------------------------- several reporters in one process

// c12RunFresh runs the case in a process of its own: the harness binary in replay mode.  It
// returns the failing predicate and message of the child ("" = the case passed there).
func c12RunFresh(c *c12Case) (pred, what, harnessErr string) {
	f, err := os.CreateTemp("", "c12-fresh-*.json")
	if err != nil {
		return "", "", err.Error()
	}
	defer os.Remove(f.Name())
	json.NewEncoder(f).Encode(map[string]interface{}{"case": c})
	f.Close()
	cctx, cancel := context.WithTimeout(context.Background(), 180*time.Second)
	defer cancel()
	out, err := exec.CommandContext(cctx, os.Args[0], "replay", "C12", "--file", f.Name()).CombinedOutput()
	if cctx.Err() != nil {
		return "", "", "child process timed out"
	}
	text := string(out)
	if strings.Contains(text, "REPLAY property=C12 passes") {
		return "", "", ""
	}
	if i := strings.LastIndex(text, "REPLAY property=C12 FAILS: "); i >= 0 {
		what = strings.TrimSpace(text[i+len("REPLAY property=C12 FAILS: "):])
		var r struct {
			Failures []struct {
				Predicate string `json:"predicate"`
			} `json:"failures"`
		}
		if json.Unmarshal([]byte(text[:i]), &r) == nil && len(r.Failures) > 0 {
			pred = r.Failures[0].Predicate
		}
		if pred == "" {
			pred = "datagram_le_max"
		}
		return pred, what, ""
	}
	tail := text
	if len(tail) > 600 {
		tail = tail[len(tail)-600:]
	}
	return "no_drop_no_dup", fmt.Sprintf("the process running the case ended without a verdict (%v): %s", err, tail), ""
}

// c12GenPair: an ordinary case whose reporter is not the first one of its process: reporters of
// the other (or the same, or both) protocol are created before it and stay open.  The property
// holds for "Compact and Binary protocols" of every reporter; a process that talks to two
// collectors has one reporter per collector.
func c12GenPair(r *Rng, i int, fresh bool) c12Case {
	var c c12Case
	for k := 0; k < 20; k++ {
		c = c12Gen(r, i, false, false)
		if c.FitJ > 0 && len(c.Ops) >= 12 {
			break
		}
	}
	c.Proto = i % 2
	switch r.Intn(4) {
	case 0, 1:
		c.Before = []int{1 - c.Proto}
	case 2:
		c.Before = []int{1 - c.Proto, c.Proto}
	default:
		c.Before = []int{c.Proto, 1 - c.Proto}
	}
	if i < 2 {
		c.Before = []int{1 - c.Proto}
	}
	c.Fresh = fresh
	return c
}

// ---------------------------------------------------------------- pool turnover

// c12GenTurnover: a long allocation history.  A few handles are allocated early; then more
// distinct tag sets than the reporter's tag-slice pool holds (its size is DefaultMaxQueueSize,
// m3/resource_pool.go) are allocated on the same reporter; then a few late handles; then the early
// and the late handles are reported into closely filled packets.  The property quantifies over
// "all sequences of reported metrics ... every name and tag set": what a handle is charged and
// sends must not depend on how many other metrics the process allocated in between.
func c12GenTurnover(r *Rng, i int) c12Case {
	c := c12Case{Proto: i % 2, Service: c12Str(r, 1+r.Intn(6)), Env: c12Str(r, 1+r.Intn(6))}
	handle := func(minTags int) c12Alloc {
		a := c12Alloc{Kind: 1 + r.Intn(5), Name: c12Str(r, 3+r.Intn(20))}
		nt := minTags + r.Intn(8-minTags+1)
		if nt > 0 {
			a.Tags = map[B]B{}
		}
		for j := 0; j < nt; j++ {
			a.Tags[B(fmt.Sprintf("k%d", j))+c12Str(r, r.Intn(6))] = c12Str(r, 1+r.Intn(10))
		}
		if a.Kind == 4 {
			a.Buckets = []int64{fbits(0), fbits(1), fbits(10)}
		} else if a.Kind == 5 {
			a.Buckets = []int64{0, int64(time.Millisecond), int64(time.Second)}
		}
		return a
	}
	for k := 2 + r.Intn(3); k > 0; k-- {
		c.Allocs = append(c.Allocs, handle(1))
	}
	c.Allocs = append(c.Allocs, handle(0))
	c.TurnoverAt = len(c.Allocs)
	c.Turnover = m3.DefaultMaxQueueSize + 8 + r.Intn(300)
	c.TurnoverLen = 20 + r.Intn(40)
	for k := 1 + r.Intn(2); k > 0; k-- {
		c.Allocs = append(c.Allocs, handle(0))
	}
	na := len(c.Allocs)
	for k := 40 + r.Intn(80); k > 0; k-- {
		h := r.Intn(na)
		v := c12Ints[r.Intn(len(c12Ints))]
		if c.Allocs[h].Kind == 2 {
			v = fbits(r.F64())
		}
		c.Ops = append(c.Ops, c12Op{H: h, B: r.Intn(4), V: v})
		if r.Chance(3) {
			c.Ops = append(c.Ops, c12Op{H: -1})
		}
	}
	if r.Bool() {
		c.MaxPkt = 1440
	} else {
		c.FitJ, c.FitDelta = 4+r.Intn(12), r.Intn(2)
	}
	return c
}

// ---------------------------------------------------------------- fault stream

// c12GenFault: rounds of reports (every value unique), most of them ended by Flush(), the sink
// closed for one to three rounds and re-opened; the limit is small enough for a round to fill
// one or several packets.
func c12GenFault(r *Rng, i int) c12Case {
	c := c12Case{Proto: i % 2, Service: c12Str(r, 1+r.Intn(8)), Env: c12Str(r, 1+r.Intn(6))}
	if r.Chance(30) {
		c.Common = c12TagMap(r, 2, true)
	}
	na := 2 + r.Intn(4)
	for k := 0; k < na; k++ {
		a := c12Alloc{Kind: 1 + r.Intn(5), Name: c12Str(r, 4+r.Intn(40)), Tags: c12TagMap(r, 3, true)}
		if k == 0 {
			a.Kind = 1
		}
		if a.Kind == 4 {
			a.Buckets = []int64{fbits(0), fbits(1), fbits(10)}
		} else if a.Kind == 5 {
			a.Buckets = []int64{0, int64(time.Millisecond), int64(time.Second)}
		}
		c.Allocs = append(c.Allocs, a)
	}
	serial := int64(0)
	round := func() {
		k := 3 + r.Intn(12)
		if r.Chance(25) {
			k = 20 + r.Intn(40) // several packets
		}
		for ; k > 0; k-- {
			serial++
			h := r.Intn(na)
			v := serial
			switch {
			case c.Allocs[h].Kind == 2:
				v = fbits(float64(serial))
			case r.Chance(50):
				v = math.MaxInt64 - serial // ten-byte varints: the metrics take every byte charged
			}
			c.Ops = append(c.Ops, c12Op{H: h, B: r.Intn(4), V: v})
		}
		if r.Chance(85) {
			c.Ops = append(c.Ops, c12Op{H: -1})
		}
		c.Ops = append(c.Ops, c12Op{H: -4})
	}
	for k := r.Intn(3); k > 0; k-- {
		round()
	}
	for cycles := 1 + r.Intn(2); cycles > 0; cycles-- {
		c.Ops = append(c.Ops, c12Op{H: -2})
		closed := 1 + r.Intn(3)
		early := r.Chance(40) // re-open before the round whose send reports the refusal
		for k := 0; k < closed; k++ {
			if early && k == closed-1 && closed > 1 {
				c.Ops = append(c.Ops, c12Op{H: -3})
			}
			round()
		}
		c.Ops = append(c.Ops, c12Op{H: -3})
		for k := 2 + r.Intn(3); k > 0; k-- {
			round()
		}
	}
	c.MaxPkt = []int32{1440, 1440, 512, 800, 2000, 4096}[r.Intn(6)]
	if r.Chance(25) {
		c.MaxPkt, c.FitJ, c.FitDelta = 0, 2+r.Intn(8), r.Intn(2)
	}
	return c
}

// the collector is away for a moment: one round into the closed port (lost), the sink back, three
// more rounds (the first of them reports the refusal); 12 counters per round, one packet each
func c12FaultFixed(proto int) c12Case {
	c := c12Case{Proto: proto, MaxPkt: 1440, Service: "svc", Env: "test"}
	for i := 0; i < 12; i++ {
		c.Allocs = append(c.Allocs, c12Alloc{Kind: 1, Name: B(fmt.Sprintf("requests.handled.count.%02d", i)), Tags: map[B]B{"endpoint": "/v1/items", "status": "200"}})
	}
	serial := int64(0)
	round := func() {
		for i := 0; i < 12; i++ {
			serial++
			c.Ops = append(c.Ops, c12Op{H: i, V: math.MaxInt64 - serial})
		}
		c.Ops = append(c.Ops, c12Op{H: -1}, c12Op{H: -4})
	}
	c.Ops = append(c.Ops, c12Op{H: -2})
	round()
	c.Ops = append(c.Ops, c12Op{H: -3})
	round()
	round()
	round()
	return c
}

// ---------------------------------------------------------------- witnesses (finding F12)

func c12Repeat(op c12Op, n int) []c12Op {
	out := make([]c12Op, n)
	for i := range out {
		out[i] = op
		out[i].B = i
	}
	return out
}

var c12Witnesses = []c12Case{
	// pinned tree: MaxPacketSizeBytes 147 (freeBytes 64 = the charge of the counter), one datagram of 161 bytes
	{Witness: "F12-binary-one-counter", Proto: 1, FitJ: 1, Service: "svc", Env: "test",
		Allocs: []c12Alloc{{Kind: 1, Name: "c"}}, Ops: []c12Op{{H: 0, V: 1}}},
	// pinned tree: MaxPacketSizeBytes 83 (freeBytes 32), one datagram of 86 bytes
	{Witness: "F12-compact-one-gauge", Proto: 0, FitJ: 1, Service: "svc", Env: "test",
		Allocs: []c12Alloc{{Kind: 2, Name: "g"}}, Ops: []c12Op{{H: 0, V: 0x3ff0000000000000}}},
	// pinned tree: histogram traffic under the customary 1440 limit gives datagrams above 1600 bytes
	{Witness: "F12-binary-histogram-1440", Proto: 1, MaxPkt: 1440, Service: "svc", Env: "test",
		Allocs: []c12Alloc{{Kind: 4, Name: "h", Tags: map[B]B{"a": "b"}, Buckets: []int64{fbits(0), fbits(1), fbits(2), fbits(3), fbits(4), fbits(5), fbits(6), fbits(7), fbits(8), fbits(9)}}},
		Ops:    c12Repeat(c12Op{H: 0, V: 3}, 400)},
	// pinned tree: bucket tags charged by string length only; large sample counts use every byte charged
	{Witness: "F12-compact-bucket-tags", Proto: 0, FitJ: 12, Service: "svc", Env: "test",
		Allocs: []c12Alloc{{Kind: 5, Name: "latency", Buckets: []int64{0, int64(time.Millisecond), int64(time.Second)}}},
		Ops:    c12Repeat(c12Op{H: 0, V: math.MaxInt64}, 36)},
}

// ---------------------------------------------------------------- registration

func init() {
	props["C12"] = func(ctx *Ctx) {
		ctx.Header("M3BatchCorr")
		ctx.Res.Rule = "case = (protocol, common tags, bucket tag names, handles of all kinds with names 1..600 bytes and 0..8 tags, a history of reports with values at the encoding extremes and Flush() calls, MaxPacketSizeBytes absolute or fitted to the charges of the first j reports +-1) run on a real m3 reporter over loopback UDP; plus a stream in which the handles (histograms with tag sets of very different size) are allocated at the same time from one goroutine each, plus a stream whose reporter is created after reporters of other protocols in the same (partly a fresh) process, plus a pool-turnover stream (more distinct tag sets than the tag-slice pool holds allocated between early and late handles), plus a fault stream in which the loopback sink is closed and re-opened on the same port between rounds of reports (failed sends, then normal traffic); non-trivial = at least one datagram; distinct by case hash"
		retried, lost := 0, 0
		exact, dgrams, atMax := 0, 0, 0
		faults, faultsSeen, faultDelivered, faultEmpty := 0, 0, 0, 0
		one := func(c *c12Case, witness, restricted bool) bool {
			if c.Fresh && ctx.Replay == nil {
				pred, what, herr := c12RunFresh(c)
				cls := map[int]string{0: "compact", 1: "binary"}[c.Proto] + "/after-other-reporters/fresh-process"
				if herr != "" {
					ctx.Note("fresh-process case not run: %s", herr)
					cls += "/not-run"
				}
				ctx.Case(c, "", cls, hashOf(c))
				if what != "" {
					ctx.Fail(pred, what, c, nil)
					return false
				}
				return true
			}
			res := c12Run(c, restricted, false)
			if res.Loss {
				retried++
				res = c12Run(c, restricted, true)
			}
			if res.Loss && res.Fail == "" {
				lost++
				res.Pred, res.Fail = "no_drop_no_dup", fmt.Sprintf("datagrams missing in two consecutive runs (%d datagrams read)", len(res.Dgrams))
			}
			proto := map[int]string{0: "compact", 1: "binary"}[c.Proto]
			cls := proto
			switch {
			case res.Rejected != "":
				cls += "/refused"
			case len(res.Dgrams) == 0:
				cls += "/nothing-sent"
			case len(res.Dgrams) == 1:
				cls += "/1-datagram"
			case len(res.Dgrams) < 6:
				cls += "/2-5-datagrams"
			default:
				cls += "/6+datagrams"
			}
			if res.Flushes > 0 && !res.Fault {
				cls += "/flush"
			}
			if c.ConcAlloc {
				cls += "/concurrent-alloc"
			}
			if c.Turnover > 0 {
				cls += "/pool-turnover"
			}
			if len(c.Before) > 0 {
				cls += "/after-other-reporters"
			}
			if res.Fault {
				cls = proto + "/fault"
				switch {
				case res.Reopen != "":
					cls += "/port-not-reopened"
				case res.WriteErr > 0:
					cls += "/write-error-seen"
				case res.Missing > 0:
					cls += "/metrics-lost"
				default:
					cls += "/nothing-lost"
				}
				faults++
				if res.WriteErr > 0 {
					faultsSeen++
				}
				faultDelivered += len(res.Dgrams)
				faultEmpty += res.Empty
			}
			key := ""
			if len(res.Dgrams) > 0 {
				key = hashOf(c)
			}
			dgrams += len(res.Dgrams)
			exact += res.exact
			for _, d := range res.Dgrams {
				if d.Len == int(res.MaxPkt) {
					atMax++
				}
			}
			term := ""
			// the concurrent-allocation cases are large (hundreds of bucket rows with long tags): one in
			// four goes through the model, all of them through the direct predicates
			concSkip := c.ConcAlloc && ctx.Res.Evaluations%4 != 0
			if res.Fail == "" && res.Rejected == "" && !(witness && restricted) && !res.Fault && !concSkip {
				idn, bn := string(c.IDName), string(c.BName)
				if idn == "" {
					idn = m3.DefaultHistogramBucketIDName
				}
				if bn == "" {
					bn = m3.DefaultHistogramBucketName
				}
				term = c12Term(ctx.Res.Evaluations, c, &res, idn, bn)
			}
			ctx.Case(c, term, cls, key)
			if res.Fail != "" {
				if witness {
					ctx.FailKnown("F12", res.Pred, res.Fail, c, res)
				} else {
					ctx.Fail(res.Pred, res.Fail, c, res)
				}
				return false
			}
			return true
		}
		if ctx.Replay != nil {
			var c c12Case
			if err := json.Unmarshal(ctx.Replay, &c); err != nil {
				fatal(err)
			}
			// a case with concurrent allocation depends on the interleaving of the allocating
			// goroutines: repeat it until it fails (at most 40 times)
			for k := 0; k < 40; k++ {
				if !one(&c, false, false) || !c.ConcAlloc {
					break
				}
			}
			return
		}
		// witness stream: if one of them fails the tree under test has the defect F12 and the
		// main stream stays where the pinned accounting is sufficient (Compact, counters and
		// timers with small values, no Flush)
		restricted := false
		if os.Getenv("VERIF_C12_SKIP_WITNESSES") == "" {
			for i := range c12Witnesses {
				w := c12Witnesses[i]
				if !one(&w, true, false) {
					restricted = true
				}
			}
		}
		ctx.Res.Extra["f12_present"] = restricted
		if restricted {
			ctx.Note("F12 witnesses fail on this tree: main stream restricted to the Compact protocol, counters and timers with small values, no Flush(); the envelope predicate is not evaluated")
		}
		for _, raw := range ctx.CorpusCases() {
			var c c12Case
			if json.Unmarshal(raw, &c) == nil && len(c.Allocs) > 0 && c.Witness == "" && !restricted { // the witnesses in the corpus are the built-in ones
				one(&c, false, false)
			}
		}
		// NewRng(seed+1) is NewRng(seed) advanced by one draw; forking through a hashed output
		// gives unrelated streams for neighbouring seeds
		rng := ctx.R.Fork()
		n := ctx.N(320, 6000)
		for i := 0; i < n; i++ {
			c := c12Gen(rng, i, ctx.Thorough(), restricted)
			one(&c, false, restricted)
		}
		// fault stream (not on a tree with F12: its accounting overflows on its own)
		if !restricted {
			for proto := 0; proto < 2; proto++ {
				c := c12FaultFixed(proto)
				one(&c, false, false)
			}
			frng := ctx.R.Fork()
			for i, nf := 0, ctx.N(24, 400); i < nf; i++ {
				c := c12GenFault(frng, i)
				one(&c, false, false)
			}
		}
		// concurrent allocation stream
		if !restricted {
			crng := ctx.R.Fork()
			for i, nc := 0, ctx.N(24, 300); i < nc; i++ {
				c := c12GenConc(crng, i, ctx.Thorough())
				one(&c, false, false)
			}
		}
		// several reporters in one process
		if !restricted {
			prng := ctx.R.Fork()
			for i, np := 0, ctx.N(6, 40); i < np; i++ {
				c := c12GenPair(prng, i, true)
				one(&c, false, false)
			}
			for i, np := 0, ctx.N(6, 60); i < np; i++ {
				c := c12GenPair(prng, i, false)
				one(&c, false, false)
			}
		}
		// pool turnover stream
		if !restricted {
			trng := ctx.R.Fork()
			for i, nt := 0, ctx.N(4, 40); i < nt; i++ {
				c := c12GenTurnover(trng, i)
				one(&c, false, false)
			}
		}
		ctx.Res.Extra["fault_cases"] = faults
		ctx.Res.Extra["fault_cases_with_a_write_error_reported_by_the_reporter"] = faultsSeen
		ctx.Res.Extra["fault_cases_datagrams_received"] = faultDelivered
		ctx.Res.Extra["fault_cases_zero_byte_datagrams_after_failed_sends"] = faultEmpty
		ctx.Res.Extra["datagrams"] = dgrams
		ctx.Res.Extra["batches_charged_exactly_free_bytes"] = exact
		ctx.Res.Extra["datagrams_of_exactly_max_packet_size"] = atMax
		ctx.Res.Extra["retried_after_apparent_loss"] = retried
		ctx.Res.Extra["lost_twice"] = lost
	}
}
