package main

// C14 — flush-heavy storms: "Any interleaving of Allocate, Report, Flush and
// Close calls from any number of goroutines completes without panic".  Several
// goroutines call Flush in a tight loop (overlapping report loops sharing one
// reporter) while producers keep metrics flowing, so that Flush's reading of the
// batching goroutine's counters interleaves with their updates in every order;
// small and large queues, sink reachable or not.  Every call is wrapped in
// recover(): a panic in a caller is the verdict; then Close must return, exactly
// once with nil, and leave no goroutine of package m3 behind.

import (
	"fmt"
	"runtime"
	"strings"
	"sync"
	"sync/atomic"
	"time"

	tally "github.com/uber-go/tally/v4"
	"github.com/uber-go/tally/v4/m3"
)

type c14FlushStorm struct {
	Storm       bool   `json:"storm"`
	FlushStorm  bool   `json:"flush_storm"`
	Seed        uint64 `json:"seed"`
	Cap         int    `json:"cap"`
	Binary      bool   `json:"binary,omitempty"`
	Flushers    int    `json:"flushers"`
	Flushes     int    `json:"flushes"` // per flushing goroutine
	Producers   int    `json:"producers"`
	Unreachable bool   `json:"sink_unreachable,omitempty"`
	CloseDuring bool   `json:"close_during,omitempty"` // Close while the flushers are still running
}

func c14FlushStormOne(ctx *Ctx, fs *c14FlushStorm) {
	sink := newM3Sink(fs.Binary) // datagrams are left unread: only the callers matter here
	defer sink.Close()
	addr := sink.Addr()
	if fs.Unreachable {
		sink.Close()
	}
	proto := m3.Compact
	if fs.Binary {
		proto = m3.Binary
	}
	m3.VerifSetYield((func(int))(nil))
	r, err := m3.NewReporter(m3.Options{HostPorts: []string{addr}, Service: "svc", Env: "test", MaxQueueSize: fs.Cap, Protocol: proto})
	if err != nil {
		fatal(err)
	}
	var mu sync.Mutex
	var panics []string
	var stop int32
	var flushes, nils int64
	guard := func(what string, f func()) {
		defer func() {
			if e := recover(); e != nil {
				mu.Lock()
				if len(panics) < 3 {
					panics = append(panics, fmt.Sprintf("%s (after %d Flush calls, %d goroutines flushing, %d reporting, queue %d): %v",
						what, atomic.LoadInt64(&flushes), fs.Flushers, fs.Producers, fs.Cap, e))
				}
				mu.Unlock()
				atomic.StoreInt32(&stop, 1)
			}
		}()
		f()
	}
	var fwg, pwg sync.WaitGroup
	for g := 0; g < fs.Flushers; g++ {
		fwg.Add(1)
		go func() {
			defer fwg.Done()
			for k := 0; k < fs.Flushes && atomic.LoadInt32(&stop) == 0; k++ {
				guard("Flush", r.Flush)
				atomic.AddInt64(&flushes, 1)
			}
		}()
	}
	for g := 0; g < fs.Producers; g++ {
		g := g
		pwg.Add(1)
		go func() {
			defer pwg.Done()
			c := r.AllocateCounter("c", nil)
			ga := r.AllocateGauge("g", map[string]string{"p": fmt.Sprint(g)})
			h := r.AllocateHistogram("h", nil, tally.ValueBuckets{1, 2}).ValueBucket(0, 1)
			for n := 0; atomic.LoadInt32(&stop) == 0; n++ {
				switch (n + g) % 3 {
				case 0:
					guard("ReportCount", func() { c.ReportCount(1) })
				case 1:
					guard("ReportGauge", func() { ga.ReportGauge(1) })
				default:
					guard("ReportSamples", func() { h.ReportSamples(1) })
				}
				if n&255 == 255 {
					runtime.Gosched()
				}
			}
		}()
	}
	closeIt := func() {
		guard("Close", func() {
			if r.Close() == nil {
				atomic.AddInt64(&nils, 1)
			}
		})
	}
	hang := ""
	wait := func(wg *sync.WaitGroup, what string) {
		fin := make(chan struct{})
		go func() { wg.Wait(); close(fin) }()
		select {
		case <-fin:
		case <-time.After(30 * time.Second):
			if hang == "" {
				hang = what + " still running after 30 s:\n" + m3Stacks()
			}
			atomic.StoreInt32(&stop, 1)
		}
	}
	if fs.CloseDuring {
		for atomic.LoadInt64(&flushes) < int64(fs.Flushers*fs.Flushes/2) && atomic.LoadInt32(&stop) == 0 {
			runtime.Gosched()
		}
		closeIt()
	}
	wait(&fwg, "Flush callers")
	atomic.StoreInt32(&stop, 1)
	wait(&pwg, "Report callers")
	if hang == "" {
		done := make(chan struct{})
		go func() { closeIt(); close(done) }()
		select {
		case <-done:
		case <-time.After(30 * time.Second):
			hang = "Close did not return within 30 s:\n" + m3Stacks()
		}
	}
	guard("Flush after Close", r.Flush)
	ctx.Case(fs, "", "storm-flush-heavy", hashOf(fs))
	switch {
	case len(panics) > 0:
		ctx.Fail("no_panic", "flush-heavy storm: "+strings.Join(panics, "; "), fs, nil)
	case hang != "":
		ctx.Fail("no_hang", hang, fs, nil)
	case nils != 1:
		ctx.Fail("second_close_returns_error", fmt.Sprintf("flush-heavy storm: %d Close calls returned nil", nils), fs, nil)
	default:
		if leak := m3Leak(); leak != "" {
			ctx.Fail("no_goroutine_left_after_close", "flush-heavy storm: goroutines of package m3 left:\n"+leak, fs, nil)
		}
	}
}

func c14FlushStorms(ctx *Ctx) {
	for k, nk := 0, ctx.N(6, 30); k < nk; k++ {
		r := ctx.R
		fs := c14FlushStorm{Storm: true, FlushStorm: true, Seed: r.U64() % 1000000, Cap: []int{4096, 8, 64, 1, 512, 4096}[k%6], Binary: r.Chance(30),
			Flushers: []int{4, 2, 6, 3}[k%4], Flushes: ctx.N(4000, 10000), Producers: 1 + k%3, Unreachable: k%3 == 2, CloseDuring: k%5 == 4}
		c14FlushStormOne(ctx, &fs)
	}
}
