package main

// C14 — flush-heavy storms: "Any interleaving of Allocate, Report, Flush and
// Close calls from any number of goroutines completes without panic".  Several
// goroutines call Flush in a tight loop (overlapping report loops sharing one
// reporter) while producers keep metrics flowing, so that Flush's reading of the
// batching goroutine's counters interleaves with their updates in every order;
// small and large queues, sink reachable or not.  Every call is wrapped in
// recover(): a panic in a caller is the verdict; then Close must return, exactly
// once with nil, and leave no goroutine of package m3 behind.

import (
	"fmt"
	"runtime"
	"strings"
	"sync"
	"sync/atomic"
	"time"

	tally "github.com/uber-go/tally/v4"
	"github.com/uber-go/tally/v4/m3"
)

type c14FlushStorm struct {
	Storm       bool   `json:"storm"`
	FlushStorm  bool   `json:"flush_storm"`
	Seed        uint64 `json:"seed"`
	Cap         int    `json:"cap"`
	Binary      bool   `json:"binary,omitempty"`
	Flushers    int    `json:"flushers"`
	Flushes     int    `json:"flushes"` // per flushing goroutine
	Producers   int    `json:"producers"`
	Unreachable bool   `json:"sink_unreachable,omitempty"`
	CloseDuring bool   `json:"close_during,omitempty"` // Close while the flushers are still running
	Dests       []int  `json:"dests,omitempty"`        // extra destinations (see c14Dests)
}

func c14FlushStormOne(ctx *Ctx, fs *c14FlushStorm) {
	sink := newM3Sink(fs.Binary) // datagrams are left unread: only the callers matter here
	defer sink.Close()
	addr := sink.Addr()
	if fs.Unreachable {
		sink.Close()
	}
	proto := m3.Compact
	if fs.Binary {
		proto = m3.Binary
	}
	m3.VerifSetYield((func(int))(nil))
	hostports, live := c14Dests(addr, fs.Binary, fs.Dests)
	for _, s := range live {
		defer s.Close()
	}
	r, err := m3.NewReporter(m3.Options{HostPorts: hostports, Service: "svc", Env: "test", MaxQueueSize: fs.Cap, Protocol: proto})
	if err != nil {
		fatal(err)
	}
	var mu sync.Mutex
	var panics []string
	var stop int32
	var flushes, nils int64
	guard := func(what string, f func()) {
		defer func() {
			if e := recover(); e != nil {
				mu.Lock()
				if len(panics) < 3 {
					panics = append(panics, fmt.Sprintf("%s (after %d Flush calls, %d goroutines flushing, %d reporting, queue %d): %v",
						what, atomic.LoadInt64(&flushes), fs.Flushers, fs.Producers, fs.Cap, e))
				}
				mu.Unlock()
				atomic.StoreInt32(&stop, 1)
			}
		}()
		f()
	}
	var fwg, pwg sync.WaitGroup
	for g := 0; g < fs.Flushers; g++ {
		fwg.Add(1)
		go func() {
			defer fwg.Done()
			for k := 0; k < fs.Flushes && atomic.LoadInt32(&stop) == 0; k++ {
				guard("Flush", r.Flush)
				atomic.AddInt64(&flushes, 1)
			}
		}()
	}
	for g := 0; g < fs.Producers; g++ {
		g := g
		pwg.Add(1)
		go func() {
			defer pwg.Done()
			c := r.AllocateCounter("c", nil)
			ga := r.AllocateGauge("g", map[string]string{"p": fmt.Sprint(g)})
			h := r.AllocateHistogram("h", nil, tally.ValueBuckets{1, 2}).ValueBucket(0, 1)
			for n := 0; atomic.LoadInt32(&stop) == 0; n++ {
				switch (n + g) % 3 {
				case 0:
					guard("ReportCount", func() { c.ReportCount(1) })
				case 1:
					guard("ReportGauge", func() { ga.ReportGauge(1) })
				default:
					guard("ReportSamples", func() { h.ReportSamples(1) })
				}
				if n&255 == 255 {
					runtime.Gosched()
				}
			}
		}()
	}
	closeIt := func() {
		guard("Close", func() {
			if r.Close() == nil {
				atomic.AddInt64(&nils, 1)
			}
		})
	}
	hang := ""
	wait := func(wg *sync.WaitGroup, what string) {
		fin := make(chan struct{})
		go func() { wg.Wait(); close(fin) }()
		select {
		case <-fin:
		case <-time.After(30 * time.Second):
			if hang == "" {
				hang = what + " still running after 30 s:\n" + m3Stacks()
			}
			atomic.StoreInt32(&stop, 1)
		}
	}
	if fs.CloseDuring {
		for atomic.LoadInt64(&flushes) < int64(fs.Flushers*fs.Flushes/2) && atomic.LoadInt32(&stop) == 0 {
			runtime.Gosched()
		}
		closeIt()
	}
	wait(&fwg, "Flush callers")
	atomic.StoreInt32(&stop, 1)
	wait(&pwg, "Report callers")
	if hang == "" {
		done := make(chan struct{})
		go func() { closeIt(); close(done) }()
		select {
		case <-done:
		case <-time.After(30 * time.Second):
			hang = "Close did not return within 30 s:\n" + m3Stacks()
		}
	}
	guard("Flush after Close", r.Flush)
	cls := "storm-flush-heavy"
	if len(fs.Dests) > 0 {
		cls += fmt.Sprintf(" dests=%d", 1+len(fs.Dests))
	}
	ctx.Case(fs, "", cls, hashOf(fs))
	switch {
	case len(panics) > 0:
		ctx.Fail("no_panic", "flush-heavy storm: "+strings.Join(panics, "; "), fs, nil)
	case hang != "":
		ctx.Fail("no_hang", hang, fs, nil)
	case nils != 1:
		ctx.Fail("second_close_returns_error", fmt.Sprintf("flush-heavy storm: %d Close calls returned nil", nils), fs, nil)
	default:
		if leak := m3Leak(); leak != "" {
			ctx.Fail("no_goroutine_left_after_close", "flush-heavy storm: goroutines of package m3 / its transports left after Close returned:\n"+c14Trim(leak), fs, nil)
		}
	}
}

func c14FlushStorms(ctx *Ctx) {
	for k, nk := 0, ctx.N(6, 30); k < nk; k++ {
		if c14Failed(ctx) {
			return
		}
		r := ctx.R
		fs := c14FlushStorm{Storm: true, FlushStorm: true, Seed: r.U64() % 1000000, Cap: []int{4096, 8, 64, 1, 512, 4096}[k%6], Binary: r.Chance(30),
			Flushers: []int{4, 2, 6, 3}[k%4], Flushes: ctx.N(4000, 10000), Producers: 1 + k%3, Unreachable: k%3 == 2, CloseDuring: k%5 == 4}
		if k%3 == 1 {
			fs.Dests = [][]int{{1, 3}, {2}}[(k/3)%2]
		}
		c14FlushStormOne(ctx, &fs)
	}
}

// ---------------------------------------------------------------------------
// multi-destination sequences: "with the destination reachable, unreachable or
// closed mid-run (send errors)" for a reporter with two or three HostPorts (the
// multi-destination transport).  One goroutine reports and flushes `Rounds`
// times, waiting (bounded, collection effort only) for the live sink to see
// each batch so that every round is a datagram of its own; half-way the live
// sink may be closed as well.  Then Close; "after Close has returned none of
// the reporter's goroutines is left running" is checked on the goroutine dump
// (package m3 and its transports), and every live destination must have
// received only values that were reported, each at most once.

type c14MultiDest struct {
	Storm     bool   `json:"storm"`
	MultiDest bool   `json:"multi_dest"`
	Seed      uint64 `json:"seed"`
	Binary    bool   `json:"binary,omitempty"`
	Dests     []int  `json:"dests"` // extra destinations (see c14Dests)
	Rounds    int    `json:"rounds"`
	CloseSink bool   `json:"close_sink_midway,omitempty"`
	Cap       int    `json:"cap"`
}

// c14Trim keeps the first goroutines of a dump.
func c14Trim(dump string) string {
	blks := strings.Split(dump, "\n\n")
	if len(blks) <= 3 {
		return dump
	}
	return fmt.Sprintf("%s\n\n... and %d more goroutines", strings.Join(blks[:3], "\n\n"), len(blks)-3)
}

func c14MultiDestOne(ctx *Ctx, md *c14MultiDest) {
	sink := newM3Sink(md.Binary)
	sink.Serve()
	defer sink.Close()
	hostports, live := c14Dests(sink.Addr(), md.Binary, md.Dests)
	for _, s := range live {
		s.Serve()
		defer s.Close()
	}
	proto := m3.Compact
	if md.Binary {
		proto = m3.Binary
	}
	m3.VerifSetYield((func(int))(nil))
	r, err := m3.NewReporter(m3.Options{HostPorts: hostports, Service: "svc", Env: "test", MaxQueueSize: md.Cap, Protocol: proto})
	if err != nil {
		fatal(err)
	}
	var panics []string
	guard := func(what string, f func()) {
		defer func() {
			if e := recover(); e != nil {
				panics = append(panics, fmt.Sprintf("%s: %v", what, e))
			}
		}()
		f()
	}
	c := r.AllocateCounter("c", map[string]string{"k": "v"})
	sinkOpen := true
	hang := ""
	// a call that does not come back within 30 s is the verdict (a reporter whose consumer
	// has stopped blocks Flush for ever): the call is left behind in its goroutine
	bounded := func(what string, f func()) {
		fin := make(chan struct{})
		go func() {
			defer close(fin)
			guard(what, f)
		}()
		select {
		case <-fin:
		case <-time.After(30 * time.Second):
			hang = what + " did not return within 30 s:\n" + c14Trim(m3Stacks())
		}
	}
	for i := 0; i < md.Rounds && len(panics) == 0 && hang == ""; i++ {
		if md.CloseSink && i == md.Rounds/2 {
			sink.Close()
			sinkOpen = false
		}
		before := sink.Len()
		bounded(fmt.Sprintf("ReportCount of round %d", i), func() { c.ReportCount(int64(1000 + i)) })
		if hang != "" {
			break
		}
		bounded(fmt.Sprintf("Flush of round %d", i), r.Flush)
		for k := 0; sinkOpen && k < 200 && sink.Len() == before; k++ {
			time.Sleep(250 * time.Microsecond)
		}
		if !sinkOpen {
			time.Sleep(time.Millisecond)
		}
	}
	nils := 0
	if hang == "" {
		done := make(chan struct{})
		go func() {
			defer close(done)
			guard("Close", func() {
				if r.Close() == nil {
					nils++
				}
			})
		}()
		select {
		case <-done:
		case <-time.After(30 * time.Second):
			hang = "Close did not return within 30 s:\n" + c14Trim(m3Stacks())
		}
	}
	cls := fmt.Sprintf("multi-destination dests=%d", 1+len(md.Dests))
	ctx.Case(md, "", cls, hashOf(md))
	switch {
	case len(panics) > 0:
		ctx.Fail("no_panic", "multi-destination reporter: "+strings.Join(panics, "; "), md, nil)
		return
	case hang != "":
		ctx.Fail("no_hang", hang, md, nil)
		return
	case nils != 1:
		ctx.Fail("second_close_returns_error", fmt.Sprintf("multi-destination reporter: %d Close calls returned nil", nils), md, nil)
		return
	}
	if leak := m3Leak(); leak != "" {
		ctx.Fail("no_goroutine_left_after_close", fmt.Sprintf("reporter with %d HostPorts (extra destinations %v; 1, 2 = unreachable), %d rounds of ReportCount + Flush, then Close: after Close returned these goroutines of package m3 / its transports are still there:\n%s",
			1+len(md.Dests), md.Dests, md.Rounds, c14Trim(leak)), md, nil)
		return
	}
	time.Sleep(2 * time.Millisecond)
	lists := [][]int64{}
	if sinkOpen {
		lists = append(lists, sink.Values())
	}
	for _, s := range live {
		lists = append(lists, s.Values())
	}
	for _, got := range lists {
		seen := map[int64]int{}
		for _, v := range got {
			if v == -1 {
				continue
			}
			seen[v]++
			if v < 1000 || v >= int64(1000+md.Rounds) || seen[v] > 1 {
				ctx.Fail("delivered_values_were_reported", fmt.Sprintf("multi-destination reporter: a live destination received value %d %d time(s); values 1000..%d were reported once each", v, seen[v], 999+md.Rounds), md, nil)
				return
			}
		}
	}
}

func c14MultiDests(ctx *Ctx) {
	for k, nk := 0, ctx.N(10, 60); k < nk; k++ {
		if c14Failed(ctx) {
			return
		}
		r := ctx.R
		md := c14MultiDest{Storm: true, MultiDest: true, Seed: r.U64() % 1000000, Binary: k%3 == 2,
			Dests:  [][]int{{1}, {2}, {1, 2}, {3}, {1, 3}, {2, 4}, {1, 1}, {4}, {2, 2}, {3, 1}}[k%10],
			Rounds: r.Range(6, 14), CloseSink: k%4 == 3, Cap: []int{4096, 4, 64}[k%3]}
		c14MultiDestOne(ctx, &md)
	}
}
