package main

// Coq term printing for the cases files and the shared observable type
// (mirror of coq/Base/Obs.v: Ev k ints strings).

import (
	"encoding/hex"
	"fmt"
	"unicode/utf8"
	"math"
	"sort"
	"strconv"
	"strings"
)

// Ev is one projected observable. I holds integers; bit i of F marks I[i] as
// float64 bits (printed unsigned); F = 0xffffffff marks all of I, however long.
type Ev struct {
	Src int      `json:"src,omitempty"`
	K   int      `json:"k"`
	I   []int64  `json:"i,omitempty"`
	F   uint32   `json:"f,omitempty"`
	S   []string `json:"s,omitempty"`
}

func zs(v int64) string {
	if v < 0 {
		return "(" + strconv.FormatInt(v, 10) + ")"
	}
	return strconv.FormatInt(v, 10)
}
func us(v uint64) string { return strconv.FormatUint(v, 10) }
func fbits(f float64) int64 { return int64(math.Float64bits(f)) }

func zlist(vs []int64) string {
	p := make([]string, len(vs))
	for i, v := range vs {
		p[i] = zs(v)
	}
	return "[" + strings.Join(p, ";") + "]"
}
func ulist(vs []uint64) string {
	p := make([]string, len(vs))
	for i, v := range vs {
		p[i] = us(v)
	}
	return "[" + strings.Join(p, ";") + "]"
}
func natlist(vs []int) string {
	p := make([]string, len(vs))
	for i, v := range vs {
		p[i] = strconv.Itoa(v) + "%nat"
	}
	return "[" + strings.Join(p, ";") + "]"
}

func bytesTerm(s string) string {
	p := make([]string, len(s))
	for i := 0; i < len(s); i++ {
		p[i] = strconv.Itoa(int(s[i]))
	}
	return "[" + strings.Join(p, ";") + "]"
}
func bytesList(ss []string) string {
	p := make([]string, len(ss))
	for i, s := range ss {
		p[i] = bytesTerm(s)
	}
	return "[" + strings.Join(p, ";") + "]"
}

// rawInt prints one integer in the compact transport encoding of
// coq/Base/Obs.v (primitive ints; escapes outside [0, 2^62)).
func rawInt(v int64, unsigned bool) string {
	if v >= 0 && v < 1<<62 {
		return strconv.FormatInt(v, 10)
	}
	if unsigned || v > 0 {
		u := uint64(v)
		return fmt.Sprintf("4611686018427387904;%d;%d", u>>32, u&0xffffffff)
	}
	u := uint64(-v) // MinInt64 wraps to 2^63, which is its magnitude
	return fmt.Sprintf("4611686018427387905;%d;%d", u>>32, u&0xffffffff)
}

func rawInts(vs []int64, f uint32) string {
	p := make([]string, len(vs))
	for i, v := range vs {
		// an all-ones mask marks every position, also beyond the 32 the mask can name
		p[i] = rawInt(v, f == 0xffffffff || (i < 32 && f>>uint(i)&1 == 1))
	}
	return "[" + strings.Join(p, ";") + "]"
}

func rawBytes(s string) string {
	var ws []string
	for i := 0; i < len(s); i += 7 {
		var w uint64
		for j := 0; j < 7 && i+j < len(s); j++ {
			w |= uint64(s[i+j]) << uint(8*j)
		}
		ws = append(ws, strconv.FormatUint(w, 10))
	}
	return fmt.Sprintf("(%d,[%s])", len(s), strings.Join(ws, ";"))
}

func (e Ev) ints() string { return rawInts(e.I, e.F) }

// Term prints the event as a raw event (REv) of Base/Obs.v.
func (e Ev) Term() string {
	p := make([]string, len(e.S))
	for i, s := range e.S {
		p[i] = rawBytes(s)
	}
	return fmt.Sprintf("REv %d %s [%s]", e.K, e.ints(), strings.Join(p, ";"))
}

// WithSrc returns the event with its source index prepended to the integers.
func (e Ev) WithSrc() Ev {
	o := e
	o.I = append([]int64{int64(e.Src)}, e.I...)
	o.F = e.F << 1
	return o
}
func evList(es []Ev) string {
	p := make([]string, len(es))
	for i, e := range es {
		p[i] = e.Term()
	}
	return "[" + strings.Join(p, ";\n    ") + "]"
}

// gcase prints one generic case (GCase of Base/Obs.v).
func gcase(id int, params []int64, in, obs []Ev) string {
	return fmt.Sprintf("  GCase %d %s\n   %s\n   %s", id, rawInts(params, 0), evList(in), evList(obs))
}

// String renders an event readably (for messages).
func (e Ev) String() string {
	return fmt.Sprintf("{src %d k %d i %v s %q}", e.Src, e.K, e.I, e.S)
}

func boolTerm(b bool) string {
	if b {
		return "true"
	}
	return "false"
}

// nameTags flattens name and tags (sorted by key) into the es field.
func nameTags(name string, tags map[string]string) []string {
	out := []string{name}
	keys := make([]string, 0, len(tags))
	for k := range tags {
		keys = append(keys, k)
	}
	sort.Strings(keys)
	for _, k := range keys {
		out = append(out, k, tags[k])
	}
	return out
}

// B is a byte string that survives JSON (replay files, samples): valid UTF-8
// is written as is, anything else as "hex:<bytes>".
type B string

func (b B) MarshalText() ([]byte, error) {
	s := string(b)
	if utf8.ValidString(s) && !strings.HasPrefix(s, "hex:") {
		return []byte(s), nil
	}
	return []byte("hex:" + hex.EncodeToString([]byte(s))), nil
}
func (b *B) UnmarshalText(t []byte) error {
	s := string(t)
	if strings.HasPrefix(s, "hex:") {
		d, err := hex.DecodeString(s[4:])
		if err != nil {
			return err
		}
		*b = B(d)
		return nil
	}
	*b = B(s)
	return nil
}

func tagsOf(m map[B]B) map[string]string {
	if m == nil {
		return nil
	}
	o := make(map[string]string, len(m))
	for k, v := range m {
		o[string(k)] = string(v)
	}
	return o
}
