package main

// C03 — histogram bucketing: BucketPairs tiling, placement of samples,
// totality (no panic on any float64/int64), conservation over record/report
// histories, type guard. Drives the real histogram through the public scope
// API with a plain or a cached recording reporter.

import (
	"encoding/json"
	"fmt"
	"math"
	"runtime"
	"sort"
	"sync"
	"sync/atomic"
	"time"

	tally "github.com/uber-go/tally/v4"
)

type c03Op struct {
	Op string `json:"op"` // v | d | pass
	V  int64  `json:"v,omitempty"`
}
type c03Case struct {
	Dur    bool    `json:"dur"`
	Nil    bool    `json:"nil,omitempty"`
	Cached bool    `json:"cached"`
	Spec   []int64 `json:"spec"` // float bits or ns
	Ops    []c03Op `json:"ops"`
	// Def: ScopeOptions.DefaultBuckets of the root (nil = not configured); what a nil specification means
	Def    []int64 `json:"def,omitempty"`
	DefDur bool    `json:"def_dur,omitempty"`
	Sub    bool    `json:"sub,omitempty"` // the histogram is obtained from a sub-scope of the root
	// PreKind "v" / "d": another histogram ("pre") with the bounds Pre of that kind is created and used
	// first under the same root (histograms of one root share cached bucket storage)
	PreKind string  `json:"pre_kind,omitempty"`
	Pre     []int64 `json:"pre,omitempty"`
	// PreSame: "pre" is created from the very slice (same backing array, same length) that is then
	// refilled with Spec and passed for the histogram under test
	PreSame bool `json:"pre_same_slice,omitempty"`
}

var finiteFloats = []float64{0, 1, -1, 2, 0.5, 1.5, 10, 100, -100, 1e-300, -1e-300, 1e300, -1e300,
	math.MaxFloat64, -math.MaxFloat64, math.SmallestNonzeroFloat64, -math.SmallestNonzeroFloat64, 3.141592653589793, 0.1, 0.2, 0.30000000000000004}

func (r *Rng) finiteFloat() float64 {
	if r.Chance(70) {
		return finiteFloats[r.Intn(len(finiteFloats))]
	}
	for {
		f := math.Float64frombits(r.U64())
		if !math.IsNaN(f) && !math.IsInf(f, 0) {
			return f
		}
	}
}

func c03Gen(r *Rng, i int, thorough bool) c03Case {
	c := c03Case{Dur: r.Chance(40), Cached: r.Bool()}
	maxn := 8
	if thorough && r.Chance(20) {
		maxn = 64
	}
	n := r.Intn(maxn + 1)
	if i%97 == 5 || i%97 == 6 || i%97 == 7 {
		n = 62 + i%97 - 4 // 63, 64, 65 bounds in every run ("1..64 bounds" and one beyond)
	}
	if r.Chance(8) && n < 63 {
		c.Nil = true
		c.Dur = false
		n = 0
		if r.Chance(65) {
			// configured default buckets of either kind (strictly increasing, as a user would write them)
			c.DefDur = r.Bool()
			k := r.Range(1, 5)
			base := int64(r.Intn(5))
			for j := 0; j < k; j++ {
				base += int64(r.Range(1, 50))
				if c.DefDur {
					c.Def = append(c.Def, base*int64(time.Millisecond))
				} else {
					c.Def = append(c.Def, fbits(float64(base)/4))
				}
			}
			c.Sub = r.Bool()
		}
	}
	negZero := r.Bool() // at most one sign of zero per specification (sort.Sort is not stable)
	for j := 0; j < n; j++ {
		if len(c.Spec) > 0 && r.Chance(25) {
			c.Spec = append(c.Spec, c.Spec[r.Intn(len(c.Spec))]) // duplicate
			continue
		}
		if c.Dur {
			c.Spec = append(c.Spec, r.I64())
		} else {
			f := r.finiteFloat()
			if f == 0 {
				f = 0
				if negZero {
					f = math.Copysign(0, -1)
				}
			}
			c.Spec = append(c.Spec, fbits(f))
		}
	}
	// another histogram created first under the same root: the other kind with the same bit patterns,
	// or the same kind with the bounds in another order - what one histogram was given must not leak
	// into another ("a histogram keeps the bounds it was given" is C20; here: each sample lands in the
	// one correct bucket of ITS histogram)
	if !c.Nil && r.Chance(25) {
		c.Pre = append([]int64{}, c.Spec...)
		c.PreKind = map[bool]string{true: "v", false: "d"}[c.Dur]
		if r.Chance(30) {
			c.PreKind = map[bool]string{true: "d", false: "v"}[c.Dur]
			for a, b := 0, len(c.Pre)-1; a < b; a, b = a+1, b-1 {
				c.Pre[a], c.Pre[b] = c.Pre[b], c.Pre[a]
			}
		}
		if r.Chance(35) && len(c.Spec) > 0 {
			// the caller re-uses one slice: other bounds of the same kind and length first
			c.PreKind = map[bool]string{true: "d", false: "v"}[c.Dur]
			c.PreSame = true
			c.Pre = make([]int64, len(c.Spec))
			for q := range c.Pre {
				if c.Dur {
					c.Pre[q] = int64(q+1) * 1000003
				} else {
					c.Pre[q] = fbits(float64(q+1) * 0.75)
				}
			}
		}
		if c.PreKind == "v" {
			for _, x := range c.Pre {
				if f := math.Float64frombits(uint64(x)); math.IsNaN(f) || math.IsInf(f, 0) {
					c.Pre, c.PreKind = nil, ""
					break
				}
			}
		}
	}
	nops := r.Range(1, 14)
	for j := 0; j < nops; j++ {
		x := r.Intn(100)
		switch {
		case x < 15:
			c.Ops = append(c.Ops, c03Op{Op: "pass"})
		case x < 26 && x >= 22: // a stopwatch (elapsed time from a scripted clock)
			d := int64(r.Intn(2000)) - 5
			if len(c.Spec) > 0 && c.Dur && r.Chance(50) {
				if b := c.Spec[r.Intn(len(c.Spec))]; b > -(1<<40) && b < 1<<40 {
					d = b + int64(r.Intn(3)) - 1
				}
			}
			c.Ops = append(c.Ops, c03Op{Op: "sw", V: d})
		case x < 22: // the other kind: must be ignored
			if c.Dur || (c.Nil && (len(c.Def) == 0 || c.DefDur)) {
				c.Ops = append(c.Ops, c03Op{Op: "v", V: fbits(r.F64())})
			} else {
				c.Ops = append(c.Ops, c03Op{Op: "d", V: r.I64()})
			}
		default:
			dur := c.Dur || (c.Nil && (len(c.Def) == 0 || c.DefDur))
			var v int64
			spec := c.Spec
			if c.Nil {
				spec = c.Def
			}
			if len(spec) > 0 && r.Chance(60) {
				b := spec[r.Intn(len(spec))]
				switch r.Intn(3) {
				case 0:
					v = b
				case 1:
					v = b + 1 // next bit pattern / next nanosecond
				default:
					v = b - 1
				}
				if dur && ((b == math.MaxInt64 && v < 0) || (b == math.MinInt64 && v > 0)) {
					v = b
				}
			} else if dur {
				v = r.I64()
			} else {
				v = fbits(r.F64())
			}
			if dur {
				c.Ops = append(c.Ops, c03Op{Op: "d", V: v})
			} else {
				c.Ops = append(c.Ops, c03Op{Op: "v", V: v})
			}
		}
	}
	if len(c.Spec) >= 63 {
		// the last bucket of a long specification: samples above every bound
		if c.Dur {
			c.Ops = append(c.Ops, c03Op{Op: "d", V: math.MaxInt64}, c03Op{Op: "d", V: math.MaxInt64 - 1})
		} else {
			c.Ops = append(c.Ops, c03Op{Op: "v", V: fbits(math.MaxFloat64)}, c03Op{Op: "v", V: fbits(math.Inf(1))})
		}
	}
	c.Ops = append(c.Ops, c03Op{Op: "pass"})
	return c
}

func c03Buckets(c *c03Case) tally.Buckets {
	if c.Nil {
		return nil
	}
	if c.Dur {
		d := make(tally.DurationBuckets, len(c.Spec))
		for i, v := range c.Spec {
			d[i] = time.Duration(v)
		}
		return d
	}
	v := make(tally.ValueBuckets, len(c.Spec))
	for i, b := range c.Spec {
		v[i] = math.Float64frombits(uint64(b))
	}
	return v
}

type c03Deliv struct {
	Lo, Hi, N int64
}

// c03Run returns input events, observed events and a direct-predicate failure.
func c03Run(c *c03Case) (in []Ev, obs []Ev, fail string) {
	dur := c.Dur && !c.Nil
	var ff uint32
	if !dur {
		ff = 0xffffffff
	}
	in = append(in, Ev{K: 30, I: append([]int64(nil), c.Spec...), F: ff})
	b := c03Buckets(c)

	// the public pair derivation
	var uppers []int64
	func() {
		defer func() {
			if p := recover(); p != nil {
				fail = fmt.Sprintf("BucketPairs panicked: %v", p)
				obs = append(obs, Ev{K: 98})
			}
		}()
		before := append([]int64(nil), c.Spec...)
		ps := tally.BucketPairs(b)
		for _, p := range ps {
			if dur {
				obs = append(obs, Ev{K: 34, I: []int64{int64(p.LowerBoundDuration()), int64(p.UpperBoundDuration())}})
			} else {
				obs = append(obs, Ev{K: 34, I: []int64{fbits(p.LowerBoundValue()), fbits(p.UpperBoundValue())}, F: 3})
			}
		}
		// caller's slice untouched
		for i, v := range before {
			if c.Spec[i] != v {
				fail = "BucketPairs modified the caller's slice"
			}
		}
		// direct predicate: tiling
		if fail == "" {
			fail = c03Tiling(obs, dur, len(c.Spec))
		}
	}()
	if fail != "" {
		return
	}

	hdur := dur || (c.Nil && (len(c.Def) == 0 || c.DefDur))
	log := &Log{}
	opts := tally.ScopeOptions{OmitCardinalityMetrics: true}
	if c.Nil && len(c.Def) > 0 {
		if c.DefDur {
			d := make(tally.DurationBuckets, len(c.Def))
			for i, v := range c.Def {
				d[i] = time.Duration(v)
			}
			opts.DefaultBuckets = d
			in = append(in, Ev{K: 39, I: append([]int64(nil), c.Def...)})
		} else {
			v := make(tally.ValueBuckets, len(c.Def))
			for i, b := range c.Def {
				v[i] = math.Float64frombits(uint64(b))
			}
			opts.DefaultBuckets = v
			in = append(in, Ev{K: 39, I: append([]int64(nil), c.Def...), F: 0xffffffff})
		}
	}
	if c.Cached {
		opts.CachedReporter = &RecCached{L: log, Caps: caps{true, true}}
	} else {
		opts.Reporter = &RecReporter{L: log, Caps: caps{true, true}}
	}
	scope, closer := tally.VerifNewRootScope(opts, 0, 1)
	defer closer.Close()
	var h, shadow tally.Histogram
	var shadowTS tally.TestScope
	snapV, snapD := map[float64]int64{}, map[time.Duration]int64{}
	var snapWant, snapNaN int64
	preMark := 0
	func() {
		defer func() {
			if p := recover(); p != nil {
				fail = fmt.Sprintf("Histogram() panicked: %v", p)
				obs = append(obs, Ev{K: 98})
			}
		}()
		if c.PreSame && len(c.Pre) == len(c.Spec) {
			switch bb := b.(type) {
			case tally.DurationBuckets:
				for i := range bb {
					bb[i] = time.Duration(c.Pre[i])
				}
				scope.Histogram("pre", bb)
				for i := range bb {
					bb[i] = time.Duration(c.Spec[i])
				}
			case tally.ValueBuckets:
				for i := range bb {
					bb[i] = math.Float64frombits(uint64(c.Pre[i]))
				}
				scope.Histogram("pre", bb)
				for i := range bb {
					bb[i] = math.Float64frombits(uint64(c.Spec[i]))
				}
			}
		} else {
			switch c.PreKind {
			case "v":
				pb := make(tally.ValueBuckets, len(c.Pre))
				for i, x := range c.Pre {
					pb[i] = math.Float64frombits(uint64(x))
				}
				scope.Histogram("pre", pb)
			case "d":
				pb := make(tally.DurationBuckets, len(c.Pre))
				for i, x := range c.Pre {
					pb[i] = time.Duration(x)
				}
				scope.Histogram("pre", pb)
			}
		}
		preMark = log.Len()
		if c.Sub {
			h = scope.SubScope("s").Histogram("h", b)
		} else {
			h = scope.Histogram("h", b)
		}
		if !c.Nil {
			// the same history on a reporter-less test scope: "counted in exactly one bucket" as the
			// snapshot shows it (one entry per distinct upper bound, equal bounds adding up)
			shadowTS = tally.NewTestScope("", nil)
			shadow = shadowTS.Histogram("h", b)
		}
	}()
	if fail != "" {
		return
	}
	// bucket handles of the cached flavour: the full tiling
	type pair struct{ lo, hi int64 }
	bounds := map[int64]pair{}
	for _, e := range log.Snapshot()[preMark:] {
		if e.K == 24 || e.K == 25 {
			bounds[e.I[3]] = pair{e.I[1], e.I[2]}
			f := uint32(0)
			if e.K == 24 {
				f = 3
			}
			obs = append(obs, Ev{K: 38, I: []int64{e.I[1], e.I[2]}, F: f})
			uppers = append(uppers, e.I[2])
		}
	}
	mark := log.Len()
	pending := map[pair]int64{} // direct predicate: expected count per (lo, hi)
	expectBucket := func(v int64) (pair, bool) {
		// effective sorted uppers, independently of the implementation
		spec := c.Spec
		if c.Nil {
			spec = nil
			if len(c.Def) > 0 {
				spec = append(spec, c.Def...)
			} else {
				for _, d := range defaultScopeBucketsNs {
					spec = append(spec, d)
				}
			}
		}
		var us []int64
		us = append(us, spec...)
		if hdur {
			sort.Slice(us, func(i, j int) bool { return us[i] < us[j] })
			us = append(us, math.MaxInt64)
			lo := int64(math.MinInt64)
			for _, u := range us {
				if u >= v {
					return pair{lo, u}, true
				}
				lo = u
			}
			return pair{}, false
		}
		sort.SliceStable(us, func(i, j int) bool {
			return math.Float64frombits(uint64(us[i])) < math.Float64frombits(uint64(us[j]))
		})
		us = append(us, fbits(math.MaxFloat64))
		fv := math.Float64frombits(uint64(v))
		lo := fbits(-math.MaxFloat64)
		if math.IsNaN(fv) {
			return pair{}, false // "at most one bucket": checked through conservation below
		}
		lastLo := lo
		for _, u := range us {
			if math.Float64frombits(uint64(u)) >= fv {
				return pair{lo, u}, true
			}
			lastLo = lo
			lo = u
		}
		return pair{lastLo, us[len(us)-1]}, true // +Inf: counted in the last bucket
	}
	_ = uppers
	nanPending := int64(0)
	for _, o := range c.Ops {
		if fail != "" {
			break
		}
		switch o.Op {
		case "v", "d":
			func() {
				defer func() {
					if p := recover(); p != nil {
						fail = fmt.Sprintf("recording %s %d panicked: %v", o.Op, o.V, p)
						obs = append(obs, Ev{K: 98})
					}
				}()
				if o.Op == "v" {
					in = append(in, Ev{K: 31, I: []int64{o.V}, F: 1})
					h.RecordValue(math.Float64frombits(uint64(o.V)))
					if shadow != nil {
						shadow.RecordValue(math.Float64frombits(uint64(o.V)))
					}
					if !hdur {
						if p, ok := expectBucket(o.V); ok {
							pending[p]++
							snapV[math.Float64frombits(uint64(p.hi))]++
							snapWant++
						} else {
							nanPending++
							snapNaN++
						}
					}
				} else {
					in = append(in, Ev{K: 32, I: []int64{o.V}})
					h.RecordDuration(time.Duration(o.V))
					if shadow != nil {
						shadow.RecordDuration(time.Duration(o.V))
					}
					if hdur {
						p, _ := expectBucket(o.V)
						pending[p]++
						snapD[time.Duration(p.hi)]++
						snapWant++
					}
				}
			}()
		case "sw":
			// a stopwatch: Start(), then Stop() after o.V nanoseconds of a scripted clock; a duration
			// histogram records the elapsed time, a value histogram ignores it
			func() {
				defer func() {
					if p := recover(); p != nil {
						fail = fmt.Sprintf("stopwatch of %d ns panicked: %v", o.V, p)
						obs = append(obs, Ev{K: 98})
					}
				}()
				in = append(in, Ev{K: 32, I: []int64{o.V}})
				reads := 0
				restore := tally.VerifSetNow(func() time.Time {
					reads++
					if reads == 1 {
						return time.Unix(1000, 0)
					}
					return time.Unix(1000, 0).Add(time.Duration(o.V))
				})
				sw := h.Start()
				sw.Stop()
				restore()
				if hdur {
					p, _ := expectBucket(o.V)
					pending[p]++
				}
			}()
		case "pass":
			in = append(in, Ev{K: 33})
			tally.VerifReportOnce(scope)
			evs := log.Snapshot()
			got := map[pair]int64{}
			var total int64
			for _, e := range evs[mark:] {
				switch e.K {
				case 4, 5:
					f := uint32(0)
					if e.K == 4 {
						f = 3
					}
					obs = append(obs, Ev{K: 35, I: []int64{e.I[0], e.I[1], e.I[2]}, F: f})
					got[pair{e.I[0], e.I[1]}] += e.I[2]
					total += e.I[2]
				case 26:
					bp := bounds[e.I[0]]
					f := uint32(0)
					if !hdur {
						f = 3
					}
					obs = append(obs, Ev{K: 35, I: []int64{bp.lo, bp.hi, e.I[1]}, F: f})
					got[bp] += e.I[1]
					total += e.I[1]
				}
			}
			obs = append(obs, Ev{K: 36})
			mark = len(evs)
			// direct predicate: every non-NaN sample in the first bucket whose upper
			// bound is >= the sample; NaNs in at most one bucket each (optionally dropped)
			var want int64
			for p, n := range pending {
				want += n
				if got[p] < n {
					fail = fmt.Sprintf("bucket (%d,%d]: delivered %d samples, recorded %d", p.lo, p.hi, got[p], n)
				}
			}
			if fail == "" && (total < want || total > want+nanPending) {
				fail = fmt.Sprintf("pass delivered %d samples, recorded %d (+%d NaN)", total, want, nanPending)
			}
			pending = map[pair]int64{}
			nanPending = 0
		}
	}
	if fail == "" && shadow != nil {
		for _, hs := range shadowTS.Snapshot().Histograms() {
			var total int64
			if hdur {
				got := hs.Durations()
				for _, n := range got {
					total += n
				}
				for u, n := range snapD {
					if got[u] < n {
						fail = fmt.Sprintf("test scope: the snapshot shows %d samples at upper bound %d, %d were recorded there", got[u], int64(u), n)
					}
				}
			} else {
				got := hs.Values()
				for _, n := range got {
					total += n
				}
				for u, n := range snapV {
					if got[u] < n {
						fail = fmt.Sprintf("test scope: the snapshot shows %d samples at upper bound %v, %d were recorded there", got[u], u, n)
					}
				}
			}
			if fail == "" && (total < snapWant || total > snapWant+snapNaN) {
				fail = fmt.Sprintf("test scope: the snapshot shows %d samples in all, %d were recorded (+%d NaN)", total, snapWant, snapNaN)
			}
		}
	}
	return
}

var defaultScopeBucketsNs = []int64{0, 10e6, 25e6, 50e6, 75e6, 100e6, 200e6, 300e6, 400e6, 500e6, 600e6, 800e6, 1e9, 2e9, 5e9}

func c03Tiling(obs []Ev, dur bool, nspec int) string {
	var ps []Ev
	for _, e := range obs {
		if e.K == 34 {
			ps = append(ps, e)
		}
	}
	if len(ps) != nspec+1 {
		return fmt.Sprintf("BucketPairs returned %d pairs for %d bounds", len(ps), nspec)
	}
	lt := func(a, b int64) bool {
		if dur {
			return a < b
		}
		return math.Float64frombits(uint64(a)) < math.Float64frombits(uint64(b))
	}
	first, last := int64(math.MinInt64), int64(math.MaxInt64)
	if !dur {
		first, last = fbits(-math.MaxFloat64), fbits(math.MaxFloat64)
	}
	if ps[0].I[0] != first {
		return "first lower bound is not the minimum representable"
	}
	if ps[len(ps)-1].I[1] != last {
		return "last upper bound is not the maximum representable"
	}
	for i := 1; i < len(ps); i++ {
		if ps[i].I[0] != ps[i-1].I[1] {
			return fmt.Sprintf("pair %d: lower bound differs from the previous upper bound", i)
		}
		if lt(ps[i].I[1], ps[i-1].I[1]) {
			return fmt.Sprintf("pair %d: upper bound decreases", i)
		}
	}
	return ""
}

func c03Class(c *c03Case) string {
	k := "value"
	if c.Dur {
		k = "duration"
	}
	if c.Nil {
		k = "nil-spec"
	}
	f := "plain"
	if c.Cached {
		f = "cached"
	}
	return fmt.Sprintf("%s/%s/bounds=%d", k, f, len(c.Spec))
}

func init() {
	props["C03"] = func(ctx *Ctx) {
		ctx.Header("BucketsCorr")
		ctx.Res.Rule = "case = (kind, bucket specification, reporter flavour, history of RecordValue/RecordDuration/report passes); samples drawn at a bound, one bit pattern / nanosecond either side, extremes, +-Inf, NaN; non-trivial = at least one bound and one accepted sample; distinct by case hash"
		classes := map[string]int{}
		one := func(c *c03Case) {
			in, obs, fail := c03Run(c)
			key := ""
			if len(c.Spec) > 0 && len(c.Ops) > 1 {
				key = hashOf(c)
			}
			idx := ctx.Res.Evaluations
			par := []int64{b2i(c.Dur), b2i(c.Nil), 0}
			if c.Nil && len(c.Def) > 0 {
				par[2] = 1 + b2i(c.DefDur)
			}
			ctx.Case(c, gcase(idx, par, in, obs), c03Class(c), key)
			for _, o := range c.Ops {
				if o.Op == "v" && !c.Dur && !c.Nil {
					f := math.Float64frombits(uint64(o.V))
					switch {
					case math.IsNaN(f):
						classes["sample:NaN"]++
					case math.IsInf(f, 1):
						classes["sample:+Inf"]++
					case math.IsInf(f, -1):
						classes["sample:-Inf"]++
					default:
						classes["sample:finite"]++
					}
				}
			}
			if fail != "" {
				ctx.Fail("one_correct_bucket_tiling_no_panic", fail, c, obs)
			}
		}
		if ctx.Replay != nil {
			var probe struct {
				Cr []json.RawMessage `json:"cr"`
			}
			if json.Unmarshal(ctx.Replay, &probe) == nil && len(probe.Cr) > 0 {
				// a case of the concurrent-creation stream
				var cc c20Case
				if err := json.Unmarshal(ctx.Replay, &cc); err != nil {
					fatal(err)
				}
				_, _, fail := c20RunCache(&cc)
				ctx.Case(cc, "", "concurrent-creation-colliding-specs", "")
				if fail != "" {
					ctx.Fail("one_correct_bucket_tiling_no_panic", "histograms created concurrently: "+fail, cc, nil)
				}
				return
			}
			var sp struct {
				Stress bool `json:"stress"`
				Cached bool `json:"cached"`
				Dur    bool `json:"durations"`
			}
			if json.Unmarshal(ctx.Replay, &sp) == nil && sp.Stress {
				ctx.Case(sp, "", "recording-overlapping-report-passes", "")
				for k := 0; k < 100; k++ {
					if f := c03Stress(uint64(k), sp.Cached, sp.Dur); f != "" {
						ctx.Fail("per_bucket_counts_add_up_to_samples", f, sp, nil)
						return
					}
				}
				return
			}
			var c c03Case
			if err := json.Unmarshal(ctx.Replay, &c); err != nil {
				fatal(err)
			}
			one(&c)
			return
		}
		for _, raw := range ctx.CorpusCases() {
			var c c03Case
			if json.Unmarshal(raw, &c) == nil {
				one(&c)
			}
		}
		n := ctx.N(900, 20000)
		for i := 0; i < n; i++ {
			c := c03Gen(ctx.R, i, ctx.Thorough())
			one(&c)
		}
		// histograms created concurrently under one root with bucket sets that collide in the
		// internal bucket cache (stream shared with C20): every histogram must still deliver
		// its samples under its own bounds (direct predicate only; the schedule is the runtime's)
		nconc := ctx.N(60, 1500)
		for k := 0; k < nconc; k++ {
			c := c20GenCache(ctx.R, true)
			_, _, fail := c20RunCache(&c)
			ctx.Case(c, "", "concurrent-creation-colliding-specs", "")
			if fail != "" {
				ctx.Fail("one_correct_bucket_tiling_no_panic", "histograms created concurrently: "+fail, c, nil)
			}
		}
		// conservation "as in C01" while recording and reporting overlap: samples are recorded in short
		// bursts while three goroutines run report passes; after each burst recording pauses until every
		// reporting goroutine has completed two more passes, and then the per-bucket counts delivered so
		// far must equal the samples recorded so far (direct predicate; the schedule is the runtime's)
		nst := ctx.N(12, 300)
		for k := 0; k < nst; k++ {
			cs := map[string]interface{}{"stress": true, "cached": k%2 == 1, "durations": k%4 >= 2}
			f := c03Stress(ctx.R.U64(), k%2 == 1, k%4 >= 2)
			ctx.Case(cs, "", "recording-overlapping-report-passes", "")
			if f != "" {
				ctx.Fail("per_bucket_counts_add_up_to_samples", f, cs, nil)
				break
			}
		}
		for k, v := range classes {
			ctx.Res.Histogram[k] = v
		}
	}
}

// c03Sink adds up delivered samples per bucket upper bound (plain and cached interface).
type c03Sink struct {
	mu  sync.Mutex
	cnt map[float64]int64 // upper bound (seconds for durations) -> samples delivered
}

func (s *c03Sink) add(upper float64, n int64) {
	s.mu.Lock()
	s.cnt[upper] += n
	s.mu.Unlock()
}
func (s *c03Sink) Capabilities() tally.Capabilities                     { return caps{true, true} }
func (s *c03Sink) Flush()                                               {}
func (s *c03Sink) ReportCounter(string, map[string]string, int64)       {}
func (s *c03Sink) ReportGauge(string, map[string]string, float64)       {}
func (s *c03Sink) ReportTimer(string, map[string]string, time.Duration) {}
func (s *c03Sink) ReportHistogramValueSamples(_ string, _ map[string]string, _ tally.Buckets, _, hi float64, n int64) {
	s.add(hi, n)
}
func (s *c03Sink) ReportHistogramDurationSamples(_ string, _ map[string]string, _ tally.Buckets, _, hi time.Duration, n int64) {
	s.add(float64(hi), n)
}

type c03SinkC struct{ *c03Sink }
type c03Hist struct{ s *c03Sink }
type c03Bucket struct {
	s  *c03Sink
	hi float64
}

func (b c03Bucket) ReportSamples(n int64) { b.s.add(b.hi, n) }
func (h c03Hist) ValueBucket(_, hi float64) tally.CachedHistogramBucket {
	return c03Bucket{h.s, hi}
}
func (h c03Hist) DurationBucket(_, hi time.Duration) tally.CachedHistogramBucket {
	return c03Bucket{h.s, float64(hi)}
}
func (c c03SinkC) AllocateCounter(string, map[string]string) tally.CachedCount { return nil }
func (c c03SinkC) AllocateGauge(string, map[string]string) tally.CachedGauge   { return nil }
func (c c03SinkC) AllocateTimer(string, map[string]string) tally.CachedTimer   { return nil }
func (c c03SinkC) AllocateHistogram(string, map[string]string, tally.Buckets) tally.CachedHistogram {
	return c03Hist{c.c03Sink}
}

func c03Stress(seed uint64, cached, dur bool) string {
	r := NewRng(seed)
	sink := &c03Sink{cnt: map[float64]int64{}}
	opts := tally.ScopeOptions{OmitCardinalityMetrics: true}
	if cached {
		opts.CachedReporter = c03SinkC{sink}
	} else {
		opts.Reporter = sink
	}
	scope, closer := tally.VerifNewRootScope(opts, 0, 2)
	defer closer.Close()
	bounds := []float64{1, 2, 3, 4, 5, 6, 7}
	var h tally.Histogram
	if dur {
		var db tally.DurationBuckets
		for _, b := range bounds {
			db = append(db, time.Duration(b))
		}
		h = scope.Tagged(map[string]string{"a": "b"}).Histogram("h", db)
	} else {
		h = scope.Tagged(map[string]string{"a": "b"}).Histogram("h", tally.ValueBuckets(bounds))
	}
	stop := make(chan struct{})
	var rg sync.WaitGroup
	var done [3]int64
	for p := 0; p < 3; p++ {
		p := p
		rg.Add(1)
		go func() {
			defer rg.Done()
			for {
				select {
				case <-stop:
					return
				default:
				}
				tally.VerifReportOnce(scope)
				atomic.AddInt64(&done[p], 1)
			}
		}()
	}
	defer func() { close(stop); rg.Wait() }()
	rec := map[float64]int64{} // by the upper bound of the bucket the sample belongs to
	upper := func(v float64) float64 {
		for _, b := range bounds {
			if v <= b {
				return b
			}
		}
		if dur {
			return float64(time.Duration(math.MaxInt64))
		}
		return math.MaxFloat64
	}
	for e := 0; e < 250; e++ {
		for j, nj := 0, r.Range(1, 3); j < nj; j++ {
			v := float64(r.Range(0, 8)) // a bound, or beyond the last one
			if dur {
				h.RecordDuration(time.Duration(v))
			} else {
				h.RecordValue(v)
			}
			rec[upper(v)]++
		}
		var base [3]int64
		for p := range base {
			base[p] = atomic.LoadInt64(&done[p])
		}
		for p := range base {
			for atomic.LoadInt64(&done[p]) < base[p]+2 {
				runtime.Gosched()
			}
		}
		sink.mu.Lock()
		bad := ""
		for u, n := range rec {
			if sink.cnt[u] != n {
				bad = fmt.Sprintf("recording overlapped report passes; after burst %d recording paused until every reporting goroutine had completed two more passes: bucket with upper bound %v has %d samples recorded, %d delivered", e, u, n, sink.cnt[u])
			}
		}
		for u, n := range sink.cnt {
			if n != 0 && rec[u] == 0 {
				bad = fmt.Sprintf("bucket with upper bound %v: %d samples delivered, none recorded", u, n)
			}
		}
		sink.mu.Unlock()
		if bad != "" {
			return bad
		}
	}
	return ""
}
