package main

// C03 — histogram bucketing: BucketPairs tiling, placement of samples,
// totality (no panic on any float64/int64), conservation over record/report
// histories, type guard. Drives the real histogram through the public scope
// API with a plain or a cached recording reporter.

import (
	"encoding/json"
	"fmt"
	"math"
	"sort"
	"time"

	tally "github.com/uber-go/tally/v4"
)

type c03Op struct {
	Op string `json:"op"` // v | d | pass
	V  int64  `json:"v,omitempty"`
}
type c03Case struct {
	Dur    bool    `json:"dur"`
	Nil    bool    `json:"nil,omitempty"`
	Cached bool    `json:"cached"`
	Spec   []int64 `json:"spec"` // float bits or ns
	Ops    []c03Op `json:"ops"`
}

var finiteFloats = []float64{0, 1, -1, 2, 0.5, 1.5, 10, 100, -100, 1e-300, -1e-300, 1e300, -1e300,
	math.MaxFloat64, -math.MaxFloat64, math.SmallestNonzeroFloat64, -math.SmallestNonzeroFloat64, 3.141592653589793, 0.1, 0.2, 0.30000000000000004}

func (r *Rng) finiteFloat() float64 {
	if r.Chance(70) {
		return finiteFloats[r.Intn(len(finiteFloats))]
	}
	for {
		f := math.Float64frombits(r.U64())
		if !math.IsNaN(f) && !math.IsInf(f, 0) {
			return f
		}
	}
}

func c03Gen(r *Rng, i int, thorough bool) c03Case {
	c := c03Case{Dur: r.Chance(40), Cached: r.Bool()}
	maxn := 8
	if thorough && r.Chance(20) {
		maxn = 64
	}
	n := r.Intn(maxn + 1)
	if r.Chance(8) {
		c.Nil = true
		c.Dur = false
		n = 0
	}
	negZero := r.Bool() // at most one sign of zero per specification (sort.Sort is not stable)
	for j := 0; j < n; j++ {
		if len(c.Spec) > 0 && r.Chance(25) {
			c.Spec = append(c.Spec, c.Spec[r.Intn(len(c.Spec))]) // duplicate
			continue
		}
		if c.Dur {
			c.Spec = append(c.Spec, r.I64())
		} else {
			f := r.finiteFloat()
			if f == 0 {
				f = 0
				if negZero {
					f = math.Copysign(0, -1)
				}
			}
			c.Spec = append(c.Spec, fbits(f))
		}
	}
	nops := r.Range(1, 14)
	for j := 0; j < nops; j++ {
		x := r.Intn(100)
		switch {
		case x < 15:
			c.Ops = append(c.Ops, c03Op{Op: "pass"})
		case x < 22: // the other kind: must be ignored
			if c.Dur || c.Nil {
				c.Ops = append(c.Ops, c03Op{Op: "v", V: fbits(r.F64())})
			} else {
				c.Ops = append(c.Ops, c03Op{Op: "d", V: r.I64()})
			}
		default:
			dur := c.Dur || c.Nil
			var v int64
			if len(c.Spec) > 0 && r.Chance(60) {
				b := c.Spec[r.Intn(len(c.Spec))]
				switch r.Intn(3) {
				case 0:
					v = b
				case 1:
					v = b + 1 // next bit pattern / next nanosecond
				default:
					v = b - 1
				}
				if dur && ((b == math.MaxInt64 && v < 0) || (b == math.MinInt64 && v > 0)) {
					v = b
				}
			} else if dur {
				v = r.I64()
			} else {
				v = fbits(r.F64())
			}
			if dur {
				c.Ops = append(c.Ops, c03Op{Op: "d", V: v})
			} else {
				c.Ops = append(c.Ops, c03Op{Op: "v", V: v})
			}
		}
	}
	c.Ops = append(c.Ops, c03Op{Op: "pass"})
	return c
}

func c03Buckets(c *c03Case) tally.Buckets {
	if c.Nil {
		return nil
	}
	if c.Dur {
		d := make(tally.DurationBuckets, len(c.Spec))
		for i, v := range c.Spec {
			d[i] = time.Duration(v)
		}
		return d
	}
	v := make(tally.ValueBuckets, len(c.Spec))
	for i, b := range c.Spec {
		v[i] = math.Float64frombits(uint64(b))
	}
	return v
}

type c03Deliv struct {
	Lo, Hi, N int64
}

// c03Run returns input events, observed events and a direct-predicate failure.
func c03Run(c *c03Case) (in []Ev, obs []Ev, fail string) {
	dur := c.Dur && !c.Nil
	var ff uint32
	if !dur {
		ff = 0xffffffff
	}
	in = append(in, Ev{K: 30, I: append([]int64(nil), c.Spec...), F: ff})
	b := c03Buckets(c)

	// the public pair derivation
	var uppers []int64
	func() {
		defer func() {
			if p := recover(); p != nil {
				fail = fmt.Sprintf("BucketPairs panicked: %v", p)
				obs = append(obs, Ev{K: 98})
			}
		}()
		before := append([]int64(nil), c.Spec...)
		ps := tally.BucketPairs(b)
		for _, p := range ps {
			if dur {
				obs = append(obs, Ev{K: 34, I: []int64{int64(p.LowerBoundDuration()), int64(p.UpperBoundDuration())}})
			} else {
				obs = append(obs, Ev{K: 34, I: []int64{fbits(p.LowerBoundValue()), fbits(p.UpperBoundValue())}, F: 3})
			}
		}
		// caller's slice untouched
		for i, v := range before {
			if c.Spec[i] != v {
				fail = "BucketPairs modified the caller's slice"
			}
		}
		// direct predicate: tiling
		if fail == "" {
			fail = c03Tiling(obs, dur, len(c.Spec))
		}
	}()
	if fail != "" {
		return
	}

	hdur := dur || c.Nil
	log := &Log{}
	opts := tally.ScopeOptions{OmitCardinalityMetrics: true}
	if c.Cached {
		opts.CachedReporter = &RecCached{L: log, Caps: caps{true, true}}
	} else {
		opts.Reporter = &RecReporter{L: log, Caps: caps{true, true}}
	}
	scope, closer := tally.VerifNewRootScope(opts, 0, 1)
	defer closer.Close()
	var h tally.Histogram
	func() {
		defer func() {
			if p := recover(); p != nil {
				fail = fmt.Sprintf("Histogram() panicked: %v", p)
				obs = append(obs, Ev{K: 98})
			}
		}()
		h = scope.Histogram("h", b)
	}()
	if fail != "" {
		return
	}
	// bucket handles of the cached flavour: the full tiling
	type pair struct{ lo, hi int64 }
	bounds := map[int64]pair{}
	for _, e := range log.Snapshot() {
		if e.K == 24 || e.K == 25 {
			bounds[e.I[3]] = pair{e.I[1], e.I[2]}
			f := uint32(0)
			if e.K == 24 {
				f = 3
			}
			obs = append(obs, Ev{K: 38, I: []int64{e.I[1], e.I[2]}, F: f})
			uppers = append(uppers, e.I[2])
		}
	}
	mark := log.Len()
	pending := map[pair]int64{} // direct predicate: expected count per (lo, hi)
	expectBucket := func(v int64) (pair, bool) {
		// effective sorted uppers, independently of the implementation
		spec := c.Spec
		if c.Nil {
			spec = nil
			for _, d := range defaultScopeBucketsNs {
				spec = append(spec, d)
			}
		}
		var us []int64
		us = append(us, spec...)
		if hdur {
			sort.Slice(us, func(i, j int) bool { return us[i] < us[j] })
			us = append(us, math.MaxInt64)
			lo := int64(math.MinInt64)
			for _, u := range us {
				if u >= v {
					return pair{lo, u}, true
				}
				lo = u
			}
			return pair{}, false
		}
		sort.SliceStable(us, func(i, j int) bool {
			return math.Float64frombits(uint64(us[i])) < math.Float64frombits(uint64(us[j]))
		})
		us = append(us, fbits(math.MaxFloat64))
		fv := math.Float64frombits(uint64(v))
		lo := fbits(-math.MaxFloat64)
		if math.IsNaN(fv) {
			return pair{}, false // "at most one bucket": checked through conservation below
		}
		lastLo := lo
		for _, u := range us {
			if math.Float64frombits(uint64(u)) >= fv {
				return pair{lo, u}, true
			}
			lastLo = lo
			lo = u
		}
		return pair{lastLo, us[len(us)-1]}, true // +Inf: counted in the last bucket
	}
	_ = uppers
	nanPending := int64(0)
	for _, o := range c.Ops {
		if fail != "" {
			break
		}
		switch o.Op {
		case "v", "d":
			func() {
				defer func() {
					if p := recover(); p != nil {
						fail = fmt.Sprintf("recording %s %d panicked: %v", o.Op, o.V, p)
						obs = append(obs, Ev{K: 98})
					}
				}()
				if o.Op == "v" {
					in = append(in, Ev{K: 31, I: []int64{o.V}, F: 1})
					h.RecordValue(math.Float64frombits(uint64(o.V)))
					if !hdur {
						if p, ok := expectBucket(o.V); ok {
							pending[p]++
						} else {
							nanPending++
						}
					}
				} else {
					in = append(in, Ev{K: 32, I: []int64{o.V}})
					h.RecordDuration(time.Duration(o.V))
					if hdur {
						p, _ := expectBucket(o.V)
						pending[p]++
					}
				}
			}()
		case "pass":
			in = append(in, Ev{K: 33})
			tally.VerifReportOnce(scope)
			evs := log.Snapshot()
			got := map[pair]int64{}
			var total int64
			for _, e := range evs[mark:] {
				switch e.K {
				case 4, 5:
					f := uint32(0)
					if e.K == 4 {
						f = 3
					}
					obs = append(obs, Ev{K: 35, I: []int64{e.I[0], e.I[1], e.I[2]}, F: f})
					got[pair{e.I[0], e.I[1]}] += e.I[2]
					total += e.I[2]
				case 26:
					bp := bounds[e.I[0]]
					f := uint32(0)
					if !hdur {
						f = 3
					}
					obs = append(obs, Ev{K: 35, I: []int64{bp.lo, bp.hi, e.I[1]}, F: f})
					got[bp] += e.I[1]
					total += e.I[1]
				}
			}
			obs = append(obs, Ev{K: 36})
			mark = len(evs)
			// direct predicate: every non-NaN sample in the first bucket whose upper
			// bound is >= the sample; NaNs in at most one bucket each (optionally dropped)
			var want int64
			for p, n := range pending {
				want += n
				if got[p] < n {
					fail = fmt.Sprintf("bucket (%d,%d]: delivered %d samples, recorded %d", p.lo, p.hi, got[p], n)
				}
			}
			if fail == "" && (total < want || total > want+nanPending) {
				fail = fmt.Sprintf("pass delivered %d samples, recorded %d (+%d NaN)", total, want, nanPending)
			}
			pending = map[pair]int64{}
			nanPending = 0
		}
	}
	return
}

var defaultScopeBucketsNs = []int64{0, 10e6, 25e6, 50e6, 75e6, 100e6, 200e6, 300e6, 400e6, 500e6, 600e6, 800e6, 1e9, 2e9, 5e9}

func c03Tiling(obs []Ev, dur bool, nspec int) string {
	var ps []Ev
	for _, e := range obs {
		if e.K == 34 {
			ps = append(ps, e)
		}
	}
	if len(ps) != nspec+1 {
		return fmt.Sprintf("BucketPairs returned %d pairs for %d bounds", len(ps), nspec)
	}
	lt := func(a, b int64) bool {
		if dur {
			return a < b
		}
		return math.Float64frombits(uint64(a)) < math.Float64frombits(uint64(b))
	}
	first, last := int64(math.MinInt64), int64(math.MaxInt64)
	if !dur {
		first, last = fbits(-math.MaxFloat64), fbits(math.MaxFloat64)
	}
	if ps[0].I[0] != first {
		return "first lower bound is not the minimum representable"
	}
	if ps[len(ps)-1].I[1] != last {
		return "last upper bound is not the maximum representable"
	}
	for i := 1; i < len(ps); i++ {
		if ps[i].I[0] != ps[i-1].I[1] {
			return fmt.Sprintf("pair %d: lower bound differs from the previous upper bound", i)
		}
		if lt(ps[i].I[1], ps[i-1].I[1]) {
			return fmt.Sprintf("pair %d: upper bound decreases", i)
		}
	}
	return ""
}

func c03Class(c *c03Case) string {
	k := "value"
	if c.Dur {
		k = "duration"
	}
	if c.Nil {
		k = "nil-spec"
	}
	f := "plain"
	if c.Cached {
		f = "cached"
	}
	return fmt.Sprintf("%s/%s/bounds=%d", k, f, len(c.Spec))
}

func init() {
	props["C03"] = func(ctx *Ctx) {
		ctx.Header("BucketsCorr")
		ctx.Res.Rule = "case = (kind, bucket specification, reporter flavour, history of RecordValue/RecordDuration/report passes); samples drawn at a bound, one bit pattern / nanosecond either side, extremes, +-Inf, NaN; non-trivial = at least one bound and one accepted sample; distinct by case hash"
		classes := map[string]int{}
		one := func(c *c03Case) {
			in, obs, fail := c03Run(c)
			key := ""
			if len(c.Spec) > 0 && len(c.Ops) > 1 {
				key = hashOf(c)
			}
			idx := ctx.Res.Evaluations
			par := []int64{b2i(c.Dur), b2i(c.Nil)}
			ctx.Case(c, gcase(idx, par, in, obs), c03Class(c), key)
			for _, o := range c.Ops {
				if o.Op == "v" && !c.Dur && !c.Nil {
					f := math.Float64frombits(uint64(o.V))
					switch {
					case math.IsNaN(f):
						classes["sample:NaN"]++
					case math.IsInf(f, 1):
						classes["sample:+Inf"]++
					case math.IsInf(f, -1):
						classes["sample:-Inf"]++
					default:
						classes["sample:finite"]++
					}
				}
			}
			if fail != "" {
				ctx.Fail("one_correct_bucket_tiling_no_panic", fail, c, obs)
			}
		}
		if ctx.Replay != nil {
			var probe struct {
				Cr []json.RawMessage `json:"cr"`
			}
			if json.Unmarshal(ctx.Replay, &probe) == nil && len(probe.Cr) > 0 {
				// a case of the concurrent-creation stream
				var cc c20Case
				if err := json.Unmarshal(ctx.Replay, &cc); err != nil {
					fatal(err)
				}
				_, _, fail := c20RunCache(&cc)
				ctx.Case(cc, "", "concurrent-creation-colliding-specs", "")
				if fail != "" {
					ctx.Fail("one_correct_bucket_tiling_no_panic", "histograms created concurrently: "+fail, cc, nil)
				}
				return
			}
			var c c03Case
			if err := json.Unmarshal(ctx.Replay, &c); err != nil {
				fatal(err)
			}
			one(&c)
			return
		}
		for _, raw := range ctx.CorpusCases() {
			var c c03Case
			if json.Unmarshal(raw, &c) == nil {
				one(&c)
			}
		}
		n := ctx.N(900, 20000)
		for i := 0; i < n; i++ {
			c := c03Gen(ctx.R, i, ctx.Thorough())
			one(&c)
		}
		// histograms created concurrently under one root with bucket sets that collide in the
		// internal bucket cache (stream shared with C20): every histogram must still deliver
		// its samples under its own bounds (direct predicate only; the schedule is the runtime's)
		nconc := ctx.N(60, 1500)
		for k := 0; k < nconc; k++ {
			c := c20GenCache(ctx.R, true)
			_, _, fail := c20RunCache(&c)
			ctx.Case(c, "", "concurrent-creation-colliding-specs", "")
			if fail != "" {
				ctx.Fail("one_correct_bucket_tiling_no_panic", "histograms created concurrently: "+fail, c, nil)
			}
		}
		for k, v := range classes {
			ctx.Res.Histogram[k] = v
		}
	}
}
