package main

// C04 — reported names and tags follow the scope derivation. Streams:
//   main     derivation chains of depth 0..6 (with branches) over small
//            alphabets incl. empty names, multi-byte and invalid UTF-8, forced
//            re-tagging of a key at depth >= 2, with and without
//            SanitizeOptions, all four metric kinds, plain / cached reporters
//            and test-scope snapshots; every tag map handed to the API is
//            checked for not having been written to and is then mutated by
//            the harness (caller-map aliasing: harness-only clause);
//            in part of the cases the caller also takes snapshots and writes into the
//            tag maps of their entries: later deliveries and snapshots must not change;
//   collide  two keys of one map that the sanitizer maps to the same key: the
//            delivered value must be one of the candidates (not sent to the model);
//   delims   witnesses of F05b seen through names and tags.

import (
	"encoding/json"
)

var c04Keys = []string{"a", "b", "c", "k1", "env", "é", "\xff", "a-b", "a_b", "A b", "x.y", "日本", "a b", "ключ", "a\xc3"}
var c04Vals = []string{"", "1", "2", "v", "a=b", "é", "\xfe\xff", "a b", "x.y", "a-b", "a_b", "prod", "ü\x80", "значение", "=", "a/b:c"}
var c04Names = []string{"", "a", "b", "svc", "x.y", "a+b", "n,m=1", "é", "\xff", ".", "A b", "日本", "a\x80b", "http-server", "_", "+"}
var c04Prefixes = []string{"", "", "p", "a.b", "p+q", "é", "x,y=z", "\xff\xfe", "my service"}
var c04Seps = []string{"", "", ".", "_", "+", "::", "é", ",", "\xff"}

// c04Map picks a tag map whose raw and sanitized keys are non-empty, distinct
// and delimiter-free (raw strings too: the registry also files scopes under
// the key of the unsanitized tags).
func c04Map(r *Rng, san interface {
	Key(string) string
	Value(string) string
}, max int, force []string) []kv {
	var m []kv
	seenRaw, seenSan := map[string]bool{}, map[string]bool{}
	add := func(k, v string) {
		sk, sv := san.Key(k), san.Value(v)
		if k == "" || sk == "" || !kclean(k) || !kclean(sk) || !vclean(v) || !vclean(sv) || seenRaw[k] || seenSan[sk] {
			return
		}
		seenRaw[k], seenSan[sk] = true, true
		m = append(m, kv{B(k), B(v)})
	}
	for _, k := range force {
		add(k, r.Pick(c04Vals))
	}
	for n := r.Intn(max + 1); n > 0; n-- {
		add(r.Pick(c04Keys), r.Pick(c04Vals))
	}
	return m
}

func c04Gen(r *Rng, i int) dCase {
	c := dCase{Mode: "deriv", Stream: "main", Shards: pickShards(r), Rep: []string{"plain", "cached", "test"}[i%3]}
	if c.Rep != "test" && r.Chance(50) {
		c.San = r.Range(1, len(sanConfigs)-1)
	}
	san := sanitizerOf(c.San)
	c.Prefix = B(r.Pick(c04Prefixes))
	if c.Rep != "test" {
		c.Sep = B(r.Pick(c04Seps))
	}
	c.RootTags = c04Map(r, san, 3, nil)
	nScopes := 0
	var used []string // keys tagged so far on the current chain
	chain := func(from, depth int) {
		h := from
		for d := 0; d < depth; d++ {
			if r.Chance(45) {
				c.Ops = append(c.Ops, dOp{Op: "sub", H: h, Name: B(r.Pick(c04Names))})
			} else {
				var force []string
				if d >= 1 && len(used) > 0 && r.Chance(60) {
					force = []string{used[r.Intn(len(used))]} // the same key again, deeper
				}
				m := c04Map(r, san, 3, force)
				for _, p := range m {
					used = append(used, string(p[0]))
				}
				c.Ops = append(c.Ops, dOp{Op: "tag", H: h, Tags: m})
			}
			nScopes++
			h = nScopes
			if r.Chance(30) {
				c.Ops = append(c.Ops, dOp{Op: "met", H: h, Kind: r.Range(1, 4), Name: B(r.Pick(c04Names))})
			}
		}
		c.Ops = append(c.Ops, dOp{Op: "met", H: h, Kind: r.Range(1, 4), Name: B(r.Pick(c04Names))})
	}
	for _, p := range c.RootTags {
		used = append(used, string(p[0]))
	}
	chain(0, r.Intn(7))
	for b := r.Intn(3); b > 0; b-- { // branches from earlier scopes
		chain(r.Intn(nScopes+1), r.Intn(4))
	}
	// "the tags delivered for one scope never change over its lifetime": the caller takes
	// snapshots (every root is a tally.TestScope) and writes into the tag maps of their entries
	// (deletes a tag, overwrites values, adds a tag); the scopes stay in use afterwards, and at the
	// end every metric is used once more
	// (these choices are drawn from a generator seeded by the case itself, so that the cases of
	// all streams stay what they were before this clause was exercised)
	var hs uint64 = 1469598103934665603
	for _, b := range []byte(hashOf(c)) {
		hs = (hs ^ uint64(b)) * 1099511628211
	}
	r = NewRng(hs)
	if r.Chance(45) {
		for k := r.Range(1, 2); k > 0; k-- {
			first := -1
			for j, op := range c.Ops {
				if op.Op == "met" {
					first = j
					break
				}
			}
			at := r.Range(first+1, len(c.Ops))
			ops := append([]dOp(nil), c.Ops[:at]...)
			ops = append(ops, dOp{Op: "snap", Kind: r.Intn(3)})
			c.Ops = append(ops, c.Ops[at:]...)
		}
	}
	return c
}

// c04CloseCase: "the tags delivered for one scope never change over its lifetime" - also
// not when OTHER scopes end theirs. Derivation programs on tagged trees in which sub-scopes
// (per-request scopes) are closed and dropped by a report pass or by a re-derivation; every
// metric delivered afterwards - through the parent, siblings, descendants of the closed scope,
// scopes derived later and the re-derived scope itself - must carry the name and tags its
// derivation denotes (tags_follow_derivation / name_follows_derivation). Reporter-backed roots
// only (a test scope is never reported, so nothing is ever dropped). Not sent to the model:
// Close cycles are C07's.
func c04CloseCase(r *Rng, i int) dCase {
	c := dCase{Mode: "deriv", Stream: "close", Shards: pickShards(r), Rep: []string{"plain", "cached"}[i%2]}
	if r.Chance(25) {
		c.San = r.Range(1, 2)
	}
	san := sanitizerOf(c.San)
	c.Prefix = B(r.Pick(c04Prefixes))
	c.Sep = B(r.Pick([]string{"", ".", "_", "::"}))
	if r.Chance(80) {
		c.RootTags = c04Map(r, san, 2, []string{"env"})
	}
	nScopes := 0
	type live struct {
		h    int
		tags bool
	}
	scopes := []live{{0, len(c.RootTags) > 0}}
	derive := func(op dOp) int {
		c.Ops = append(c.Ops, op)
		nScopes++
		return nScopes
	}
	met := func(h int) {
		c.Ops = append(c.Ops, dOp{Op: "met", H: h, Kind: r.Range(1, 4), Name: B(r.Pick([]string{"m", "hits", "lat", "x.y"}))})
	}
	// a small tagged tree
	for n := r.Range(1, 3); n > 0; n-- {
		p := scopes[r.Intn(len(scopes))]
		if r.Chance(55) {
			m := c04Map(r, san, 2, []string{r.Pick([]string{"zone", "tier", "k1"})})
			scopes = append(scopes, live{derive(dOp{Op: "tag", H: p.h, Tags: m}), true})
		} else {
			scopes = append(scopes, live{derive(dOp{Op: "sub", H: p.h, Name: B(r.Pick([]string{"db", "api", "cache"}))}), p.tags})
		}
		if r.Chance(60) {
			met(scopes[len(scopes)-1].h)
		}
	}
	for round, nr := 0, r.Range(1, 3); round < nr; round++ {
		// a per-request child of some scope: used, closed
		p := scopes[r.Intn(len(scopes))]
		name := B(r.Pick([]string{"req", "job", "conn"}) + string(rune('0'+round)))
		child := derive(dOp{Op: "sub", H: p.h, Name: name})
		met(child)
		var grand int
		if r.Chance(40) { // a descendant of the child stays in use
			grand = derive(dOp{Op: "sub", H: child, Name: "inner"})
			met(grand)
		}
		if r.Chance(50) {
			met(p.h) // the parent's own metrics (timers keep the tag map they were built with)
		}
		c.Ops = append(c.Ops, dOp{Op: "close", H: child})
		switch r.Intn(3) {
		case 0:
			c.Ops = append(c.Ops, dOp{Op: "pass"})
		case 1: // re-derivation of the closed child drops it and builds a new scope
			met(derive(dOp{Op: "sub", H: p.h, Name: name}))
		}
		// afterwards: parent, root, siblings, descendants, later derivations
		met(p.h)
		if r.Bool() {
			met(0)
		}
		if grand > 0 && r.Bool() {
			met(grand)
		}
		if r.Chance(60) {
			m := c04Map(r, san, 2, []string{r.Pick([]string{"shard", "zone"})})
			met(derive(dOp{Op: "tag", H: p.h, Tags: m}))
		}
		if r.Chance(50) {
			met(derive(dOp{Op: "sub", H: p.h, Name: B(r.Pick([]string{"db", "later"}))}))
		}
		q := scopes[r.Intn(len(scopes))]
		met(q.h)
	}
	return c
}

// c04Collide: one map holds two keys the sanitizer identifies.
func c04Collide(r *Rng) dCase {
	c := dCase{Mode: "deriv", Stream: "collide", Shards: pickShards(r), Rep: []string{"plain", "cached"}[r.Intn(2)], San: r.Range(1, 2)}
	pairs := [][2]string{{"a-b", "a_b"}, {"a b", "a_b"}, {"x.y", "x_y"}, {"é", "_"}, {"a b", "a.b"}}
	p := pairs[r.Intn(len(pairs))]
	san := sanitizerOf(c.San)
	if san.Key(p[0]) != san.Key(p[1]) {
		p = [2]string{"a b", "a_b"}
	}
	m := []kv{{B(p[0]), B("first")}, {B(p[1]), B("second")}}
	if r.Bool() {
		m = append(m, kv{B("other"), B("v")})
	}
	if r.Bool() {
		c.RootTags = m
		c.Ops = []dOp{{Op: "met", H: 0, Kind: r.Range(1, 4), Name: "m"}, {Op: "sub", H: 0, Name: "s"}, {Op: "met", H: 1, Kind: 1, Name: "m"}}
	} else {
		c.Ops = []dOp{{Op: "tag", H: 0, Tags: m}, {Op: "met", H: 1, Kind: r.Range(1, 4), Name: "m"},
			{Op: "tag", H: 1, Tags: kvs("z", "1")}, {Op: "met", H: 2, Kind: 1, Name: "m"}}
	}
	return c
}

func c04DelimWitnesses() []dCase {
	var cs []dCase
	for _, sh := range []int{1, 16} {
		cs = append(cs,
			// the metric of SubScope("a").Tagged{b:"c+"} is delivered as "a+b=c.m" without tags
			dCase{Mode: "deriv", Stream: "delims", Shards: sh, Rep: "plain", Ops: []dOp{
				{Op: "sub", H: 0, Name: "a+b=c"}, {Op: "sub", H: 0, Name: "a"}, {Op: "tag", H: 2, Tags: kvs("b", "c+")},
				{Op: "met", H: 3, Kind: 1, Name: "m"}}},
			// the metric of Tagged{a:"1", b:"2"} is delivered with the tags {a:"1,b=2"}
			dCase{Mode: "deriv", Stream: "delims", Shards: sh, Rep: "cached", Ops: []dOp{
				{Op: "tag", H: 0, Tags: kvs("a", "1,b=2")}, {Op: "tag", H: 0, Tags: kvs("a", "1", "b", "2")},
				{Op: "met", H: 2, Kind: 1, Name: "m"}}},
			// with a sanitizer that removes the delimiters, through the raw-key alias of the registry
			dCase{Mode: "deriv", Stream: "delims", Shards: sh, Rep: "plain", San: 1, Ops: []dOp{
				{Op: "tag", H: 0, Tags: kvs("a", "1,b=2")}, {Op: "tag", H: 0, Tags: kvs("a", "1", "b", "2")},
				{Op: "met", H: 2, Kind: 1, Name: "m"}}},
		)
	}
	return cs
}

func init() {
	props["C04"] = func(ctx *Ctx) {
		ctx.Header("DerivCorr")
		ctx.Res.Rule = "case = (root prefix, separator, tags, sanitizer options, shard count, reporter flavour, a tree of SubScope/Tagged chains of depth 0..6 with metric getters of all four kinds); generated from the seed; non-trivial = at least two calls; distinct by hash of the case"
		one := func(c *dCase) { derivOne(ctx, c, "C04") }
		if ctx.Replay != nil {
			var rp struct {
				Progs []json.RawMessage `json:"progs"`
			}
			if json.Unmarshal(ctx.Replay, &rp) == nil && len(rp.Progs) > 0 {
				regReplay(ctx, "delivered_name_and_tags_follow_the_derivation")
				return
			}
			var sc c04StormCase
			if json.Unmarshal(ctx.Replay, &sc) == nil && sc.NameStorm {
				ctx.Case(sc, "", "uncontrolled-name-storm-rounds", "")
				for k := 0; k < 5 && len(ctx.Res.Failures) == 0; k++ {
					c04NameStorm(ctx, sc.First, sc.Rounds, sc.Iters)
				}
				return
			}
			var c dCase
			if err := json.Unmarshal(ctx.Replay, &c); err != nil {
				fatal(err)
			}
			one(&c)
			return
		}
		for _, raw := range ctx.CorpusCases() {
			var c dCase
			if json.Unmarshal(raw, &c) == nil && c.Mode != "" {
				one(&c)
			}
		}
		for _, c := range c04DelimWitnesses() {
			c := c
			one(&c)
		}
		n := ctx.N(40, 600)
		for i := 0; i < n; i++ {
			c := c04Collide(ctx.R)
			one(&c)
		}
		n = ctx.N(600, 36000)
		for i := 0; i < n; i++ {
			c := c04Gen(ctx.R, i)
			one(&c)
		}
		// derivations that differ only just (invalid UTF-8 bytes, spellings the sanitizer shortens,
		// names that repeat the prefix); drawn from a generator of their own so that the cases of
		// the other streams stay what they were
		tr := NewRng(ctx.Seed*0x9E3779B97F4A7C15 + 0x7715)
		n = ctx.N(150, 6000)
		for i := 0; i < n; i++ {
			c := derivTwinsCase(tr, i)
			one(&c)
		}
		// names and tags of a derivation must also be right when scopes are obtained concurrently
		// (schedule-controlled registry scenarios: every delivery is checked against the tags of
		// the derivation it was recorded through; direct predicate)
		regCrossStream(ctx, ctx.N(150, 3000), "delivered_name_and_tags_follow_the_derivation")
		// sub-scopes of tagged trees are closed and dropped; everything else keeps its tags
		cr := NewRng(ctx.Seed*0x9E3779B97F4A7C15 + 0xC105E)
		n = ctx.N(200, 6000)
		for i := 0; i < n; i++ {
			c := c04CloseCase(cr, i)
			one(&c)
		}
		// different names derived from one prefixed scope by several goroutines at once
		// (uncontrolled; the verdict is the set of delivered names and the counters' totals)
		c04NameStorm(ctx, int(ctx.Seed%7)*3, ctx.N(144, 1440), ctx.N(400, 1000))
		ctx.Note("caller-map aliasing (the library never writes to a map handed to it and does not retain it: every map is mutated by the harness right after the call) is checked on the implementation only; the immutable model cannot express aliasing")
		ctx.Note("streams: main (delimiter-free non-empty keys whose sanitized forms stay distinct within one map), collide (delivered value is one of the candidates; not sent to the model), delims (F05b witnesses)")
	}
}
