package main

// lockx — lock-skeleton translator. Re-reads the Go sources of package tally
// (go/parser + go/types, standard library only) on every run and prints
// coq/Gen/LockSkel.v: for every function the order in which it acquires and
// releases sync.RWMutex / sync.Mutex locks (by lock class = struct type +
// field), waits on a sync.WaitGroup, returns, branches, loops and calls other
// functions of the package; everything else is erased. Proof/LockSkelOk.v then
// re-checks (vm_compute of the verified checker Locks.chk) that every exported
// entry point respects a strict order of the lock classes, so that the
// deadlock-freedom theorem of Proof/LocksP.v applies to what the code says now.
//
//   lockx <repo-dir>            prints LockSkel.v on stdout
//   lockx -report <repo-dir>    prints a JSON summary (classes, order, entry
//                               points, external calls assumed lock-neutral)
//
// What the translator is trusted for (see DESIGN.md): it over-approximates
// control flow (both branches of every if, any number of loop iterations, any
// in-package implementation of an in-package interface); calls that leave the
// package (reporters, sanitizer callbacks, the standard library) are assumed
// not to call back into the scope API while the caller holds a lock.

import (
	"encoding/json"
	"fmt"
	"go/ast"
	"go/build/constraint"
	"go/importer"
	"go/parser"
	"go/printer"
	"go/token"
	"go/types"
	"os"
	"path/filepath"
	"sort"
	"strings"
)

// ---- skeleton terms ----

type sk struct {
	k    string // Skip Acq Rel Wait Ret SetF Unless Seq Alt Loop Call
	m    string // R | W
	c    int    // class id (before ranking)
	a, b *sk
	f    int
}

var skip = &sk{k: "Skip"}

func seq(xs ...*sk) *sk {
	var out *sk
	for i := len(xs) - 1; i >= 0; i-- {
		x := xs[i]
		if x == nil || x.k == "Skip" {
			continue
		}
		if out == nil {
			out = x
		} else {
			out = &sk{k: "Seq", a: x, b: out}
		}
	}
	if out == nil {
		return skip
	}
	return out
}
func alt(a, b *sk) *sk {
	if a.k == "Skip" && b.k == "Skip" {
		return skip
	}
	return &sk{k: "Alt", a: a, b: b}
}
func loop(b *sk) *sk {
	if b.k == "Skip" {
		return skip
	}
	return &sk{k: "Loop", a: b}
}

// ---- loading ----

type world struct {
	fset   *token.FileSet
	info   *types.Info
	files  []*ast.File
	tp     *types.Package
	decls  map[*types.Func]*ast.FuncDecl
	procs  []*proc
	memo   map[string]int
	class  map[string]int
	cnames []string
	ext    map[string]bool
	errs   []string
	gos    []int
	recvs  map[string]map[string]bool // class -> receiver expressions used, per function (consistency report)
	fields map[*types.Var]int         // candidate guarded fields (map / slice fields of structs that carry a mutex)
	fnames []string
	uses   []string // report: field accesses with their base expression
}

type proc struct {
	name string
	body *sk
	done bool
}

func buildOK(f *ast.File) bool {
	for _, cg := range f.Comments {
		if cg.Pos() > f.Package {
			break
		}
		for _, c := range cg.List {
			if !constraint.IsGoBuild(c.Text) {
				continue
			}
			e, err := constraint.Parse(c.Text)
			if err != nil {
				continue
			}
			return e.Eval(func(tag string) bool {
				return tag == "linux" || tag == "amd64" || tag == "unix" || strings.HasPrefix(tag, "go1.")
			})
		}
	}
	return true
}

func load(dir string) *world {
	fset := token.NewFileSet()
	pkgs, err := parser.ParseDir(fset, dir, func(fi os.FileInfo) bool {
		return !strings.HasSuffix(fi.Name(), "_test.go")
	}, parser.ParseComments)
	if err != nil {
		fmt.Fprintln(os.Stderr, "lockx: parse", dir, err)
		os.Exit(2)
	}
	var files []*ast.File
	var names []string
	for n := range pkgs {
		names = append(names, n)
	}
	sort.Strings(names)
	for _, n := range names {
		if strings.HasSuffix(n, "_test") || n == "main" {
			continue
		}
		var fn []string
		for f := range pkgs[n].Files {
			fn = append(fn, f)
		}
		sort.Strings(fn)
		for _, f := range fn {
			if buildOK(pkgs[n].Files[f]) {
				files = append(files, pkgs[n].Files[f])
			}
		}
	}
	info := &types.Info{
		Types:      map[ast.Expr]types.TypeAndValue{},
		Defs:       map[*ast.Ident]types.Object{},
		Uses:       map[*ast.Ident]types.Object{},
		Selections: map[*ast.SelectorExpr]*types.Selection{},
	}
	conf := types.Config{Importer: importer.ForCompiler(fset, "source", nil), Error: func(error) {}, FakeImportC: true}
	tp, _ := conf.Check(filepath.Base(dir), fset, files, info)
	w := &world{fset: fset, info: info, files: files, tp: tp, decls: map[*types.Func]*ast.FuncDecl{},
		memo: map[string]int{}, class: map[string]int{}, ext: map[string]bool{}, recvs: map[string]map[string]bool{},
		fields: map[*types.Var]int{}}
	w.findFields()
	for _, f := range files {
		for _, d := range f.Decls {
			if fd, ok := d.(*ast.FuncDecl); ok && fd.Body != nil {
				if o, ok := info.Defs[fd.Name].(*types.Func); ok {
					w.decls[o] = fd
				}
			}
		}
	}
	return w
}

func (w *world) src(n ast.Node) string {
	var sb strings.Builder
	printer.Fprint(&sb, w.fset, n)
	return sb.String()
}
func (w *world) pos(n ast.Node) string {
	p := w.fset.Position(n.Pos())
	return fmt.Sprintf("%s:%d", filepath.Base(p.Filename), p.Line)
}
func (w *world) errorf(n ast.Node, f string, a ...interface{}) {
	w.errs = append(w.errs, w.pos(n)+": "+fmt.Sprintf(f, a...))
}

func funcName(o *types.Func) string {
	sig, _ := o.Type().(*types.Signature)
	if sig != nil && sig.Recv() != nil {
		t := sig.Recv().Type()
		ptr := ""
		if p, ok := t.(*types.Pointer); ok {
			t = p.Elem()
			ptr = "*"
		}
		if n, ok := t.(*types.Named); ok {
			return "(" + ptr + n.Obj().Name() + ")." + o.Name()
		}
	}
	return o.Name()
}

// ---- translation of one function ----

type fctx struct {
	w       *world
	name    string
	bind    map[types.Object]int // func-typed params / locals bound to closure procs
	defers  []*sk
	depth   int    // nesting depth of the statement being translated (0 = top level of the body)
	casRecv string // receiver name when the body starts with `if !recv.closed.CAS(false, true) { return ... }`
	loops   int
	fresh   map[types.Object]bool // locals initialised from a composite literal / new / make in this function
}

func bindKey(bind map[types.Object]int) string {
	var ks []string
	for o, p := range bind {
		ks = append(ks, fmt.Sprintf("%s=%d", o.Name(), p))
	}
	sort.Strings(ks)
	return strings.Join(ks, ",")
}

// procFor returns the index of the procedure for a declared function under a closure binding.
func (w *world) procFor(o *types.Func, bind map[types.Object]int) int {
	fd := w.decls[o]
	key := fmt.Sprintf("%p|%s", fd, bindKey(bind))
	if i, ok := w.memo[key]; ok {
		return i
	}
	i := len(w.procs)
	name := funcName(o)
	if len(bind) > 0 {
		name += "[" + bindKey(bind) + "]"
	}
	w.procs = append(w.procs, &proc{name: name})
	w.memo[key] = i
	c := &fctx{w: w, name: name, bind: bind}
	w.procs[i].body = c.funcBody(fd.Body, recvName(fd))
	w.procs[i].done = true
	return i
}

func recvName(fd *ast.FuncDecl) string {
	if fd.Recv != nil && len(fd.Recv.List) == 1 && len(fd.Recv.List[0].Names) == 1 {
		return fd.Recv.List[0].Names[0].Name
	}
	return ""
}

func (w *world) procForLit(lit *ast.FuncLit, outer *fctx) int {
	key := fmt.Sprintf("%p|%s", lit, bindKey(outer.bind))
	if i, ok := w.memo[key]; ok {
		return i
	}
	i := len(w.procs)
	name := "func@" + w.pos(lit)
	w.procs = append(w.procs, &proc{name: name})
	w.memo[key] = i
	c := &fctx{w: w, name: name, bind: outer.bind}
	w.procs[i].body = c.funcBody(lit.Body, "")
	w.procs[i].done = true
	return i
}

func (c *fctx) funcBody(body *ast.BlockStmt, recv string) *sk {
	// pattern: `if !recv.closed.CAS(false, true) { return ... }` as the first statement
	if recv != "" && len(body.List) > 0 {
		if is, ok := body.List[0].(*ast.IfStmt); ok && is.Else == nil && is.Init == nil {
			if c.w.src(is.Cond) == "!"+recv+".closed.CAS(false, true)" && endsWithReturn(is.Body) {
				c.casRecv = recv
			}
		}
	}
	c.fresh = map[types.Object]bool{}
	ast.Inspect(body, func(n ast.Node) bool {
		if as, ok := n.(*ast.AssignStmt); ok && as.Tok == token.DEFINE && len(as.Lhs) == len(as.Rhs) {
			for i, l := range as.Lhs {
				if id, ok := l.(*ast.Ident); ok && isFreshExpr(as.Rhs[i]) {
					if o := c.w.info.Defs[id]; o != nil {
						c.fresh[o] = true
					}
				}
			}
		}
		return true
	})
	b := c.block(body.List)
	return seq(b, c.runDefers())
}

func isFreshExpr(e ast.Expr) bool {
	switch x := e.(type) {
	case *ast.CompositeLit:
		return true
	case *ast.UnaryExpr:
		if x.Op == token.AND {
			_, ok := x.X.(*ast.CompositeLit)
			return ok
		}
	case *ast.CallExpr:
		if id, ok := x.Fun.(*ast.Ident); ok && (id.Name == "new" || id.Name == "make") {
			return true
		}
	}
	return false
}

// findFields: map and slice fields of the package's struct types that also carry a mutex
func (w *world) findFields() {
	if w.tp == nil {
		return
	}
	for _, n := range w.tp.Scope().Names() {
		tn, ok := w.tp.Scope().Lookup(n).(*types.TypeName)
		if !ok {
			continue
		}
		st, ok := tn.Type().Underlying().(*types.Struct)
		if !ok {
			continue
		}
		hasMu := false
		for i := 0; i < st.NumFields(); i++ {
			if nt, ok := deref(st.Field(i).Type()).(*types.Named); ok && nt.Obj().Pkg() != nil && nt.Obj().Pkg().Path() == "sync" &&
				(nt.Obj().Name() == "RWMutex" || nt.Obj().Name() == "Mutex") {
				hasMu = true
			}
		}
		if !hasMu {
			continue
		}
		for i := 0; i < st.NumFields(); i++ {
			f := st.Field(i)
			switch f.Type().Underlying().(type) {
			case *types.Map, *types.Slice:
				w.fields[f] = len(w.fnames)
				w.fnames = append(w.fnames, n+"."+f.Name())
			}
		}
	}
}

// fieldOf: the candidate field a selector expression denotes (-1: none), unless reached through a fresh local
func (c *fctx) fieldOf(e ast.Expr) int {
	sel, ok := e.(*ast.SelectorExpr)
	if !ok {
		return -1
	}
	v, ok := c.w.info.Uses[sel.Sel].(*types.Var)
	if !ok || !v.IsField() {
		return -1
	}
	id, ok := c.w.fields[v]
	if !ok {
		return -1
	}
	// root identifier of the access path
	var root ast.Expr = sel.X
	for {
		switch x := root.(type) {
		case *ast.SelectorExpr:
			root = x.X
			continue
		case *ast.IndexExpr:
			root = x.X
			continue
		case *ast.ParenExpr:
			root = x.X
			continue
		case *ast.StarExpr:
			root = x.X
			continue
		}
		break
	}
	if rid, ok := root.(*ast.Ident); ok {
		if o := c.w.info.Uses[rid]; o != nil && c.fresh[o] {
			return -1 // an object this function has just created: not shared yet
		}
	}
	c.w.uses = append(c.w.uses, fmt.Sprintf("%s: %s.%s", c.name, c.w.src(sel.X), sel.Sel.Name))
	return id
}

// lhs: the effects of evaluating an assignment target (a write to a guarded field, reads elsewhere)
func (c *fctx) lhs(e ast.Expr) *sk {
	switch x := e.(type) {
	case *ast.IndexExpr:
		if f := c.fieldOf(x.X); f >= 0 {
			return seq(c.expr(x.Index), c.exprSkipping(x.X), &sk{k: "Use", m: "w", c: f})
		}
	case *ast.SelectorExpr:
		if f := c.fieldOf(x); f >= 0 {
			return seq(c.expr(x.X), &sk{k: "Use", m: "w", c: f})
		}
	}
	return c.expr(e)
}

// exprSkipping: the effects of the sub-expressions of a selector without the access itself
func (c *fctx) exprSkipping(e ast.Expr) *sk {
	if sel, ok := e.(*ast.SelectorExpr); ok {
		return c.expr(sel.X)
	}
	return c.expr(e)
}

func endsWithReturn(b *ast.BlockStmt) bool {
	if len(b.List) == 0 {
		return false
	}
	_, ok := b.List[len(b.List)-1].(*ast.ReturnStmt)
	return ok
}

func (c *fctx) runDefers() *sk {
	var xs []*sk
	for i := len(c.defers) - 1; i >= 0; i-- {
		xs = append(xs, c.defers[i])
	}
	return seq(xs...)
}

func (c *fctx) block(list []ast.Stmt) *sk {
	var xs []*sk
	for _, s := range list {
		xs = append(xs, c.stmt(s))
	}
	return seq(xs...)
}

func (c *fctx) nested(f func() *sk) *sk {
	c.depth++
	defer func() { c.depth-- }()
	return f()
}

func (c *fctx) stmt(s ast.Stmt) *sk {
	w := c.w
	switch s := s.(type) {
	case nil:
		return skip
	case *ast.ExprStmt:
		return c.expr(s.X)
	case *ast.AssignStmt:
		var xs []*sk
		for i, r := range s.Rhs {
			if lit, ok := r.(*ast.FuncLit); ok && i < len(s.Lhs) {
				if id, ok := s.Lhs[i].(*ast.Ident); ok {
					o := w.info.Defs[id]
					if o == nil {
						o = w.info.Uses[id]
					}
					if o != nil {
						nb := map[types.Object]int{}
						for k, v := range c.bind {
							nb[k] = v
						}
						nb[o] = w.procForLit(lit, c)
						c.bind = nb
						continue
					}
				}
			}
			xs = append(xs, c.expr(r))
		}
		for _, l := range s.Lhs {
			if s.Tok == token.DEFINE {
				continue
			}
			xs = append(xs, c.lhs(l))
		}
		return seq(xs...)
	case *ast.DeclStmt:
		var xs []*sk
		if gd, ok := s.Decl.(*ast.GenDecl); ok {
			for _, sp := range gd.Specs {
				if vs, ok := sp.(*ast.ValueSpec); ok {
					for _, v := range vs.Values {
						xs = append(xs, c.expr(v))
					}
				}
			}
		}
		return seq(xs...)
	case *ast.IncDecStmt:
		return c.lhs(s.X)
	case *ast.SendStmt:
		return seq(c.expr(s.Chan), c.expr(s.Value))
	case *ast.BlockStmt:
		return c.nested(func() *sk { return c.block(s.List) })
	case *ast.LabeledStmt:
		return c.stmt(s.Stmt)
	case *ast.EmptyStmt:
		return skip
	case *ast.ReturnStmt:
		var xs []*sk
		for _, r := range s.Results {
			xs = append(xs, c.expr(r))
		}
		xs = append(xs, c.runDefers(), &sk{k: "Ret"})
		return seq(xs...)
	case *ast.DeferStmt:
		d := c.call(s.Call)
		if d.k == "Skip" {
			return skip
		}
		if c.depth > 0 {
			w.errorf(s, "defer of a lock-relevant call inside a nested statement is not supported")
			return skip
		}
		c.defers = append(c.defers, d)
		return skip
	case *ast.GoStmt:
		// a new goroutine: its function is an entry point of its own
		if lit, ok := s.Call.Fun.(*ast.FuncLit); ok {
			w.gos = append(w.gos, w.procForLit(lit, c))
		} else if o := w.staticCallee(s.Call); o != nil && w.decls[o] != nil {
			w.gos = append(w.gos, w.procFor(o, nil))
		}
		var xs []*sk
		for _, a := range s.Call.Args {
			xs = append(xs, c.expr(a))
		}
		return seq(xs...)
	case *ast.IfStmt:
		return c.nested(func() *sk {
			init := c.stmt(s.Init)
			cond := c.expr(s.Cond)
			body := c.block(s.Body.List)
			els := skip
			if s.Else != nil {
				els = c.stmt(s.Else)
			}
			cs := w.src(s.Cond)
			// `if !X.root.closed.Load() { ...; return }`: afterwards the root is known to be closed
			if s.Else == nil && strings.HasPrefix(cs, "!") && strings.HasSuffix(cs, ".root.closed.Load()") && endsWithReturn(s.Body) {
				return seq(init, cond, alt(body, &sk{k: "SetF"}))
			}
			// inside a body guarded by a successful CAS on recv.closed, `if recv.root { ... }` cannot run
			// once the root is known to be closed
			if c.casRecv != "" && s.Else == nil && cs == c.casRecv+".root" && body.k != "Skip" {
				return seq(init, cond, &sk{k: "Unless", a: body})
			}
			return seq(init, cond, alt(body, els))
		})
	case *ast.ForStmt:
		return c.nested(func() *sk {
			c.loops++
			defer func() { c.loops-- }()
			return seq(c.stmt(s.Init), c.expr(s.Cond), loop(seq(c.block(s.Body.List), c.stmt(s.Post), c.expr(s.Cond))))
		})
	case *ast.RangeStmt:
		return c.nested(func() *sk {
			c.loops++
			defer func() { c.loops-- }()
			return seq(c.expr(s.X), loop(c.block(s.Body.List)))
		})
	case *ast.SwitchStmt:
		return c.nested(func() *sk {
			return seq(c.stmt(s.Init), c.expr(s.Tag), c.clauses(s.Body.List))
		})
	case *ast.TypeSwitchStmt:
		return c.nested(func() *sk {
			return seq(c.stmt(s.Init), c.stmt(s.Assign), c.clauses(s.Body.List))
		})
	case *ast.SelectStmt:
		return c.nested(func() *sk { return c.clauses(s.Body.List) })
	case *ast.BranchStmt:
		if s.Tok == token.BREAK && s.Label == nil && c.loops == 0 {
			return skip
		}
		// break / continue / goto: only harmless when the enclosing loop body has no lock operation;
		// recorded and rejected later if the loop turns out to be lock-relevant
		return &sk{k: "Branch", m: w.pos(s)}
	}
	w.errorf(s, "statement kind %T not supported", s)
	return skip
}

func (c *fctx) clauses(list []ast.Stmt) *sk {
	// any clause, or none of them
	out := skip
	first := true
	hasDefault := false
	for i := len(list) - 1; i >= 0; i-- {
		var b *sk
		switch cl := list[i].(type) {
		case *ast.CaseClause:
			var xs []*sk
			for _, e := range cl.List {
				xs = append(xs, c.expr(e))
			}
			if cl.List == nil {
				hasDefault = true
			}
			xs = append(xs, c.block(cl.Body))
			b = seq(xs...)
		case *ast.CommClause:
			if cl.Comm == nil {
				hasDefault = true
			}
			b = seq(c.stmt(cl.Comm), c.block(cl.Body))
		}
		if first {
			out = b
			first = false
		} else {
			out = alt(b, out)
		}
	}
	if !hasDefault && !first {
		out = alt(out, skip)
	}
	return out
}

// expr: the calls made while evaluating an expression, arguments first
func (c *fctx) expr(e ast.Expr) *sk {
	if e == nil {
		return skip
	}
	var xs []*sk
	ast.Inspect(e, func(n ast.Node) bool {
		switch n := n.(type) {
		case *ast.CallExpr:
			if id, ok := n.Fun.(*ast.Ident); ok && id.Name == "delete" && len(n.Args) == 2 {
				if f := c.fieldOf(n.Args[0]); f >= 0 {
					xs = append(xs, c.expr(n.Args[1]), c.exprSkipping(n.Args[0]), &sk{k: "Use", m: "w", c: f})
					return false
				}
			}
			xs = append(xs, c.call(n))
			return false
		case *ast.FuncLit:
			return false // a closure value that is not called here
		case *ast.SelectorExpr:
			if f := c.fieldOf(n); f >= 0 {
				xs = append(xs, c.expr(n.X), &sk{k: "Use", m: "r", c: f})
				return false
			}
		}
		return true
	})
	return seq(xs...)
}

func (w *world) staticCallee(call *ast.CallExpr) *types.Func {
	switch f := call.Fun.(type) {
	case *ast.Ident:
		if o, ok := w.info.Uses[f].(*types.Func); ok {
			return o
		}
	case *ast.SelectorExpr:
		if sel, ok := w.info.Selections[f]; ok {
			if o, ok := sel.Obj().(*types.Func); ok {
				if _, isIface := sel.Recv().Underlying().(*types.Interface); !isIface {
					return o
				}
			}
			return nil
		}
		if o, ok := w.info.Uses[f.Sel].(*types.Func); ok {
			return o // pkg.Func
		}
	}
	return nil
}

func deref(t types.Type) types.Type {
	if p, ok := t.(*types.Pointer); ok {
		return p.Elem()
	}
	return t
}

// lockClass names the lock a method of sync.(RW)Mutex is applied to: owner type + field
func (w *world) lockClass(x ast.Expr) string {
	switch x := x.(type) {
	case *ast.SelectorExpr:
		if sel, ok := w.info.Selections[x]; ok {
			owner := deref(sel.Recv())
			on := owner.String()
			if n, ok := owner.(*types.Named); ok {
				on = n.Obj().Name()
			}
			t := deref(w.info.TypeOf(x))
			if n, ok := t.(*types.Named); ok && n.Obj().Pkg() != nil && n.Obj().Pkg().Path() == "sync" {
				return on + "." + x.Sel.Name
			}
			// a struct embedding the mutex
			if n, ok := t.(*types.Named); ok {
				return n.Obj().Name() + ".(embedded)"
			}
			return on + "." + x.Sel.Name
		}
	case *ast.Ident:
		t := deref(w.info.TypeOf(x))
		if n, ok := t.(*types.Named); ok && (n.Obj().Pkg() == nil || n.Obj().Pkg().Path() != "sync") {
			return n.Obj().Name() + ".(embedded)"
		}
		return "var " + x.Name
	case *ast.UnaryExpr:
		return w.lockClass(x.X)
	case *ast.ParenExpr:
		return w.lockClass(x.X)
	}
	return "expr " + w.src(x)
}

func (w *world) classID(name string) int {
	if i, ok := w.class[name]; ok {
		return i
	}
	i := len(w.cnames)
	w.class[name] = i
	w.cnames = append(w.cnames, name)
	return i
}

func (c *fctx) call(call *ast.CallExpr) *sk {
	w := c.w
	var pre []*sk
	for _, a := range call.Args {
		if _, ok := a.(*ast.FuncLit); ok {
			continue
		}
		pre = append(pre, c.expr(a))
	}
	// immediately applied closure
	if lit, ok := call.Fun.(*ast.FuncLit); ok {
		return seq(append(pre, &sk{k: "Call", f: w.procForLit(lit, c)})...)
	}
	// conversions and builtins
	if tv, ok := w.info.Types[call.Fun]; ok && (tv.IsType() || tv.IsBuiltin()) {
		return seq(pre...)
	}
	if sel, ok := call.Fun.(*ast.SelectorExpr); ok {
		pre = append(pre, c.expr(sel.X))
		if s, ok := w.info.Selections[sel]; ok {
			if o, ok := s.Obj().(*types.Func); ok && o.Pkg() != nil && o.Pkg().Path() == "sync" {
				recv := ""
				if sig, ok := o.Type().(*types.Signature); ok && sig.Recv() != nil {
					if n, ok := deref(sig.Recv().Type()).(*types.Named); ok {
						recv = n.Obj().Name()
					}
				}
				if recv == "RWMutex" || recv == "Mutex" {
					cl := w.lockClass(sel.X)
					id := w.classID(cl)
					if w.recvs[cl] == nil {
						w.recvs[cl] = map[string]bool{}
					}
					w.recvs[cl][c.name+": "+w.src(sel.X)] = true
					switch o.Name() {
					case "Lock":
						return seq(append(pre, &sk{k: "Acq", m: "W", c: id})...)
					case "RLock":
						return seq(append(pre, &sk{k: "Acq", m: "R", c: id})...)
					case "Unlock":
						return seq(append(pre, &sk{k: "Rel", m: "W", c: id})...)
					case "RUnlock":
						return seq(append(pre, &sk{k: "Rel", m: "R", c: id})...)
					default:
						w.errorf(call, "sync.%s.%s is not supported", recv, o.Name())
						return seq(pre...)
					}
				}
				if recv == "WaitGroup" && o.Name() == "Wait" {
					return seq(append(pre, &sk{k: "Wait"})...)
				}
				if recv == "Cond" || recv == "Once" && o.Name() == "Do" {
					w.errorf(call, "sync.%s.%s is not supported", recv, o.Name())
				}
				return seq(pre...)
			}
			// interface method: every implementation inside the package, or an external one
			if iface, ok := s.Recv().Underlying().(*types.Interface); ok {
				named, _ := s.Recv().(*types.Named)
				if named == nil || named.Obj().Pkg() != w.tp {
					w.ext[w.extName(sel, s)] = true
					return seq(pre...)
				}
				out := skip
				w.ext[w.extName(sel, s)] = true
				for _, impl := range w.implementers(iface, sel.Sel.Name) {
					out = alt(&sk{k: "Call", f: w.procFor(impl, nil)}, out)
				}
				return seq(append(pre, out)...)
			}
		}
	}
	// a func-typed parameter or local bound to a closure
	if id, ok := call.Fun.(*ast.Ident); ok {
		if o := w.info.Uses[id]; o != nil {
			if p, ok := c.bind[o]; ok {
				return seq(append(pre, &sk{k: "Call", f: p})...)
			}
		}
	}
	if o := w.staticCallee(call); o != nil {
		if fd := w.decls[o]; fd != nil {
			// closures passed as arguments are bound to the callee's parameters
			var bind map[types.Object]int
			sig := o.Type().(*types.Signature)
			for i, a := range call.Args {
				if lit, ok := a.(*ast.FuncLit); ok && i < sig.Params().Len() {
					if bind == nil {
						bind = map[types.Object]int{}
					}
					// the parameter object as seen inside the declaration
					var po types.Object = sig.Params().At(i)
					bind[po] = w.procForLit(lit, c)
				}
			}
			return seq(append(pre, &sk{k: "Call", f: w.procFor(o, bind)})...)
		}
		if o.Pkg() != nil && o.Pkg() != w.tp {
			return seq(pre...) // another package
		}
		return seq(pre...)
	}
	// a function value we cannot resolve: assumed lock-neutral, recorded
	if _, ok := w.info.TypeOf(call.Fun).(*types.Signature); ok {
		w.ext["func value "+w.src(call.Fun)+" ("+c.name+")"] = true
	}
	return seq(pre...)
}

func (w *world) extName(sel *ast.SelectorExpr, s *types.Selection) string {
	t := s.Recv().String()
	if n, ok := s.Recv().(*types.Named); ok {
		t = n.Obj().Name()
		if n.Obj().Pkg() != nil && n.Obj().Pkg() != w.tp {
			t = n.Obj().Pkg().Name() + "." + t
		}
	}
	return "interface " + t + "." + sel.Sel.Name
}

func (w *world) implementers(iface *types.Interface, method string) []*types.Func {
	var out []*types.Func
	if w.tp == nil {
		return nil
	}
	names := w.tp.Scope().Names()
	for _, n := range names {
		tn, ok := w.tp.Scope().Lookup(n).(*types.TypeName)
		if !ok {
			continue
		}
		t := tn.Type()
		if _, isIface := t.Underlying().(*types.Interface); isIface {
			continue
		}
		for _, tt := range []types.Type{t, types.NewPointer(t)} {
			if types.Implements(tt, iface) {
				o, _, _ := types.LookupFieldOrMethod(tt, true, w.tp, method)
				if f, ok := o.(*types.Func); ok && w.decls[f] != nil {
					out = append(out, f)
				}
				break
			}
		}
	}
	return out
}

// ---- post-processing ----

func (w *world) relevant() []bool {
	rel := make([]bool, len(w.procs))
	var has func(s *sk) bool
	has = func(s *sk) bool {
		if s == nil {
			return false
		}
		switch s.k {
		case "Acq", "Rel", "Wait", "SetF", "Use":
			return true
		case "Call":
			return rel[s.f]
		}
		return has(s.a) || has(s.b)
	}
	for changed := true; changed; {
		changed = false
		for i, p := range w.procs {
			if !rel[i] && has(p.body) {
				rel[i] = true
				changed = true
			}
		}
	}
	return rel
}

func (w *world) prune(s *sk, rel []bool, inLoop bool) *sk {
	if s == nil {
		return skip
	}
	switch s.k {
	case "Call":
		if !rel[s.f] {
			return skip
		}
		return s
	case "Seq":
		return seq(w.prune(s.a, rel, inLoop), w.prune(s.b, rel, inLoop))
	case "Alt":
		a, b := w.prune(s.a, rel, inLoop), w.prune(s.b, rel, inLoop)
		if a.k == "Skip" && b.k == "Skip" {
			return skip
		}
		return &sk{k: "Alt", a: a, b: b}
	case "Loop":
		b := w.prune(s.a, rel, true)
		if onlyControl(b) {
			return skip
		}
		if hasBranch(b) {
			w.errs = append(w.errs, "break/continue/goto inside a loop that performs lock operations is not supported ("+firstBranch(b)+")")
		}
		return &sk{k: "Loop", a: b}
	case "Unless":
		b := w.prune(s.a, rel, inLoop)
		if b.k == "Skip" {
			return skip
		}
		return &sk{k: "Unless", a: b}
	case "SetF":
		return s
	}
	return s
}

// onlyControl: no lock operation, wait, fact or call left (returns inside such a loop body still matter)
func onlyControl(s *sk) bool {
	switch s.k {
	case "Skip", "Branch":
		return true
	case "Seq", "Alt":
		return onlyControl(s.a) && onlyControl(s.b)
	}
	return false
}
func hasBranch(s *sk) bool {
	if s == nil {
		return false
	}
	if s.k == "Branch" {
		return true
	}
	if s.k == "Loop" {
		return false
	}
	return hasBranch(s.a) || hasBranch(s.b)
}
func firstBranch(s *sk) string {
	if s == nil {
		return ""
	}
	if s.k == "Branch" {
		return s.m
	}
	if x := firstBranch(s.a); x != "" {
		return x
	}
	return firstBranch(s.b)
}
func dropBranches(s *sk) *sk {
	if s == nil {
		return skip
	}
	switch s.k {
	case "Branch":
		return skip
	case "Seq":
		return seq(dropBranches(s.a), dropBranches(s.b))
	case "Alt":
		return alt(dropBranches(s.a), dropBranches(s.b))
	case "Loop":
		return loop(dropBranches(s.a))
	case "Unless":
		b := dropBranches(s.a)
		if b.k == "Skip" {
			return skip
		}
		return &sk{k: "Unless", a: b}
	}
	return s
}

// guards: for every candidate field that is written somewhere, the lock class held (for writing) at
// its write accesses; fields that are never written after construction need no guard. The choice is
// only a proposal: the Coq checker verifies at every access that the guard is held in the right mode.
// Use nodes are rewritten from field ids to guard class ids; accesses to unguarded fields are dropped.
func (w *world) guards(entries []int) (guard map[int]int, report []string) {
	type held struct {
		c int
		m string
	}
	type acc struct {
		write bool
		h     []held
	}
	accs := map[int][]acc{}
	seen := map[string]bool{}
	var walk func(s *sk, h []held, depth int) [][]held
	key := func(h []held) string { return fmt.Sprint(h) }
	uniq := func(xs [][]held) [][]held {
		m := map[string]bool{}
		var out [][]held
		for _, x := range xs {
			if k := key(x); !m[k] {
				m[k] = true
				out = append(out, x)
			}
		}
		if len(out) > 8 {
			out = out[:8]
		}
		return out
	}
	walk = func(s *sk, h []held, depth int) [][]held {
		if s == nil {
			return [][]held{h}
		}
		switch s.k {
		case "Use":
			accs[s.c] = append(accs[s.c], acc{s.m == "w", append([]held(nil), h...)})
		case "Acq":
			return [][]held{append(append([]held(nil), h...), held{s.c, s.m})}
		case "Rel":
			var out []held
			done := false
			for i := len(h) - 1; i >= 0; i-- {
				if !done && h[i].c == s.c && h[i].m == s.m {
					done = true
					continue
				}
				out = append([]held{h[i]}, out...)
			}
			return [][]held{out}
		case "Ret":
			return nil
		case "Seq":
			var out [][]held
			for _, x := range walk(s.a, h, depth) {
				out = append(out, walk(s.b, x, depth)...)
			}
			return uniq(out)
		case "Alt":
			return uniq(append(walk(s.a, h, depth), walk(s.b, h, depth)...))
		case "Loop", "Unless":
			return uniq(append(walk(s.a, h, depth), h))
		case "Call":
			k := fmt.Sprintf("%d|%s", s.f, key(h))
			if seen[k] || depth > 40 {
				return [][]held{h}
			}
			seen[k] = true
			walk(w.procs[s.f].body, h, depth+1)
			return [][]held{h}
		}
		return [][]held{h}
	}
	for _, e := range entries {
		walk(w.procs[e].body, nil, 0)
	}
	guard = map[int]int{}
	for f, as := range accs {
		nw := 0
		score := map[int]int{}
		for _, a := range as {
			if a.write {
				nw++
			}
			for _, x := range a.h {
				if !a.write || x.m == "W" {
					score[x.c]++
				}
			}
		}
		if nw == 0 {
			continue
		}
		// the classes held for writing at every write (and held at all at every read), else at every
		// write only, else the most frequent one
		inAll := func(readsToo bool) []int {
			var out []int
			for c := range w.cnames {
				ok := true
				for _, a := range as {
					if !a.write && !readsToo {
						continue
					}
					found := false
					for _, x := range a.h {
						if x.c == c && (!a.write || x.m == "W") {
							found = true
						}
					}
					if !found {
						ok = false
					}
				}
				if ok {
					out = append(out, c)
				}
			}
			return out
		}
		best := -1
		if cs := inAll(true); len(cs) > 0 {
			best = cs[len(cs)-1]
		} else if cs := inAll(false); len(cs) > 0 {
			best = cs[len(cs)-1]
		} else {
			bs := -1
			for c, n := range score {
				if n > bs || (n == bs && c < best) {
					best, bs = c, n
				}
			}
		}
		if best < 0 {
			// written with no lock held at all: any guard makes the check fail, as it must
			best = 0
		}
		guard[f] = best
		report = append(report, fmt.Sprintf("%s guarded by %s (%d accesses, %d of them writes)", w.fnames[f], w.cnames[best], len(as), nw))
	}
	sort.Strings(report)
	return
}

func (w *world) applyGuards(s *sk, guard map[int]int) *sk {
	if s == nil {
		return skip
	}
	switch s.k {
	case "Use":
		if g, ok := guard[s.c]; ok {
			return &sk{k: "Use", m: s.m, c: g}
		}
		return skip
	case "Seq":
		return seq(w.applyGuards(s.a, guard), w.applyGuards(s.b, guard))
	case "Alt":
		return alt(w.applyGuards(s.a, guard), w.applyGuards(s.b, guard))
	case "Loop":
		return loop(w.applyGuards(s.a, guard))
	case "Unless":
		b := w.applyGuards(s.a, guard)
		if b.k == "Skip" {
			return skip
		}
		return &sk{k: "Unless", a: b}
	}
	return s
}

// order: rank the classes by the observed "acquired while holding" relation (topological order);
// the ranking is re-checked in Coq, so a wrong one can only make the check fail.
func (w *world) order(rel []bool) []int {
	n := len(w.cnames)
	edge := make([][]bool, n)
	for i := range edge {
		edge[i] = make([]bool, n)
	}
	// may-hold analysis, per procedure, iterated over call sites with the caller's held set
	type key struct {
		p    int
		held string
	}
	seen := map[key]bool{}
	var walk func(s *sk, held []int) [][]int
	uniq := func(xs [][]int) [][]int {
		m := map[string]bool{}
		var out [][]int
		for _, x := range xs {
			k := fmt.Sprint(x)
			if !m[k] {
				m[k] = true
				out = append(out, x)
			}
		}
		if len(out) > 16 {
			out = out[:16]
		}
		return out
	}
	var depth int
	walk = func(s *sk, held []int) [][]int {
		if s == nil {
			return [][]int{held}
		}
		switch s.k {
		case "Acq":
			for _, h := range held {
				if h != s.c {
					edge[h][s.c] = true
				}
			}
			return [][]int{append(append([]int{}, held...), s.c)}
		case "Rel":
			var out []int
			done := false
			for i := len(held) - 1; i >= 0; i-- {
				if !done && held[i] == s.c {
					done = true
					continue
				}
				out = append([]int{held[i]}, out...)
			}
			return [][]int{out}
		case "Seq":
			var out [][]int
			for _, h := range walk(s.a, held) {
				out = append(out, walk(s.b, h)...)
			}
			return uniq(out)
		case "Alt":
			return uniq(append(walk(s.a, held), walk(s.b, held)...))
		case "Loop", "Unless":
			return uniq(append(walk(s.a, held), held))
		case "Call":
			k := key{s.f, fmt.Sprint(held)}
			if seen[k] || depth > 40 {
				return [][]int{held}
			}
			seen[k] = true
			depth++
			walk(w.procs[s.f].body, held)
			depth--
			return [][]int{held}
		}
		return [][]int{held}
	}
	for i, p := range w.procs {
		if rel[i] {
			walk(p.body, nil)
		}
	}
	// Kahn's algorithm, ties by first use; cycles are broken arbitrarily (the Coq check then fails)
	rank := make([]int, n)
	done := make([]bool, n)
	next := 1
	for cnt := 0; cnt < n; cnt++ {
		pick := -1
		for j := 0; j < n && pick < 0; j++ {
			if done[j] {
				continue
			}
			free := true
			for i := 0; i < n; i++ {
				if !done[i] && i != j && edge[i][j] {
					free = false
				}
			}
			if free {
				pick = j
			}
		}
		if pick < 0 {
			for j := 0; j < n; j++ {
				if !done[j] {
					pick = j
					break
				}
			}
		}
		done[pick] = true
		rank[pick] = next
		next++
	}
	return rank
}

func (w *world) show(s *sk, rank []int) string {
	switch s.k {
	case "Skip", "Wait", "Ret", "SetF":
		return s.k
	case "Acq", "Rel":
		return fmt.Sprintf("%s %s %d", s.k, s.m, rank[s.c])
	case "Use":
		// after guard selection c is the guard's class id
		return fmt.Sprintf("Use %v %d", s.m == "w", rank[s.c])
	case "Seq", "Alt":
		return fmt.Sprintf("(%s %s %s)", s.k, paren(w.show(s.a, rank)), paren(w.show(s.b, rank)))
	case "Loop", "Unless":
		return fmt.Sprintf("%s %s", s.k, paren(w.show(s.a, rank)))
	case "Call":
		return fmt.Sprintf("Call %d", s.f)
	}
	return "Skip"
}
func paren(s string) string {
	if strings.ContainsAny(s, " ") && !strings.HasPrefix(s, "(") {
		return "(" + s + ")"
	}
	return s
}

func main() {
	args := os.Args[1:]
	report := false
	if len(args) > 0 && args[0] == "-report" {
		report = true
		args = args[1:]
	}
	if len(args) != 1 {
		fmt.Fprintln(os.Stderr, "usage: lockx [-report] <repo-dir>")
		os.Exit(2)
	}
	w := load(args[0])
	if w.tp == nil {
		fmt.Fprintln(os.Stderr, "lockx: type-checking produced no package")
		os.Exit(2)
	}
	// the flag the two patterns rely on must be monotone: never stored false, never CASed from true
	for _, f := range w.files {
		ast.Inspect(f, func(n ast.Node) bool {
			if call, ok := n.(*ast.CallExpr); ok {
				s := w.src(call)
				if strings.Contains(s, ".closed.Store(false)") || strings.Contains(s, ".closed.CAS(true") || strings.Contains(s, ".closed.Swap(false)") || strings.Contains(s, ".closed.Toggle(") {
					w.errorf(call, "the closed flag is reset: the SetF/Unless patterns are unsound")
				}
			}
			return true
		})
	}
	// entry points: every exported function or method with a body
	var funcs []*types.Func
	for o := range w.decls {
		funcs = append(funcs, o)
	}
	sort.Slice(funcs, func(i, j int) bool { return w.decls[funcs[i]].Pos() < w.decls[funcs[j]].Pos() })
	var api []int
	for _, o := range funcs {
		if ast.IsExported(o.Name()) {
			api = append(api, w.procFor(o, nil))
		}
	}
	rel := w.relevant()
	for i, p := range w.procs {
		p.body = dropBranches(w.prune(p.body, rel, false))
		_ = i
	}
	guard, guardReport := w.guards(append(append([]int{}, api...), w.gos...))
	if len(w.cnames) == 0 {
		guard = map[int]int{}
	}
	for _, p := range w.procs {
		p.body = w.applyGuards(p.body, guard)
	}
	rel = w.relevant()
	rank := w.order(rel)
	var apiRel, gosRel []int
	seenP := map[int]bool{}
	for _, p := range api {
		if rel[p] && !seenP[p] {
			seenP[p] = true
			apiRel = append(apiRel, p)
		}
	}
	seenG := map[int]bool{}
	for _, p := range w.gos {
		if !seenG[p] {
			seenG[p] = true
			gosRel = append(gosRel, p)
		}
	}
	if report {
		type cls struct {
			Name string `json:"name"`
			Rank int    `json:"rank"`
		}
		var cs []cls
		for i, n := range w.cnames {
			cs = append(cs, cls{n, rank[i]})
		}
		sort.Slice(cs, func(i, j int) bool { return cs[i].Rank < cs[j].Rank })
		var ext []string
		for e := range w.ext {
			ext = append(ext, e)
		}
		sort.Strings(ext)
		var apiNames, goNames []string
		for _, p := range apiRel {
			apiNames = append(apiNames, w.procs[p].name)
		}
		for _, p := range gosRel {
			goNames = append(goNames, w.procs[p].name)
		}
		nrel := 0
		for _, r := range rel {
			if r {
				nrel++
			}
		}
		recv := map[string][]string{}
		for c, m := range w.recvs {
			for k := range m {
				recv[c] = append(recv[c], k)
			}
			sort.Strings(recv[c])
		}
		json.NewEncoder(os.Stdout).Encode(map[string]interface{}{
			"lock_classes_in_rank_order": cs, "procedures": len(w.procs), "lock_relevant_procedures": nrel,
			"api_entry_points_with_lock_operations": apiNames, "goroutine_entry_points": goNames,
			"calls_assumed_lock_neutral": ext, "errors": w.errs, "receiver_expressions": recv,
			"guarded_fields": guardReport,
		})
		return
	}
	fmt.Println("(* GENERATED by harness/lockx from the Go sources of package tally - do not edit. *)")
	fmt.Println("From Coq Require Import List.")
	fmt.Println("Import ListNotations.")
	fmt.Println("From Tally Require Import Model.Locks.")
	fmt.Println()
	fmt.Println("(* lock classes, numbered by their rank (a lock may only be acquired while locks of")
	fmt.Println("   strictly smaller rank are held):")
	type cr struct {
		n string
		r int
	}
	var crs []cr
	for i, n := range w.cnames {
		crs = append(crs, cr{n, rank[i]})
	}
	sort.Slice(crs, func(i, j int) bool { return crs[i].r < crs[j].r })
	for _, c := range crs {
		fmt.Printf("     %d = %s\n", c.r, c.n)
	}
	fmt.Println("   data guarded by a lock (Use nodes name the guard's class):")
	for _, g := range guardReport {
		fmt.Printf("     %s\n", cmt(g))
	}
	fmt.Println("*)")
	fmt.Println()
	fmt.Printf("Definition translator_errors : nat := %d.\n", len(w.errs))
	for _, e := range w.errs {
		fmt.Printf("(* translator error: %s *)\n", cmt(e))
	}
	fmt.Println()
	fmt.Println("Definition procs : list sk := [")
	for i, p := range w.procs {
		sep := ";"
		if i == len(w.procs)-1 {
			sep = ""
		}
		body := "Skip"
		if rel[i] {
			body = w.show(p.body, rank)
		}
		fmt.Printf("  (* %d: %s *) %s%s\n", i, cmt(p.name), body, sep)
	}
	fmt.Println("].")
	fmt.Println()
	fmt.Printf("(* exported functions and methods that perform lock operations *)\nDefinition api : list nat := %s.\n", natList(apiRel))
	fmt.Printf("(* functions started with a go statement *)\nDefinition bg : list nat := %s.\n", natList(gosRel))
}

func cmt(s string) string {
	return strings.ReplaceAll(strings.ReplaceAll(s, "(*", "( *"), "*)", "* )")
}

func natList(xs []int) string {
	var ss []string
	for _, x := range xs {
		ss = append(ss, fmt.Sprint(x))
	}
	return "[" + strings.Join(ss, "; ") + "]"
}
