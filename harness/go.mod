module verifharness

go 1.20

require (
	github.com/cactus/go-statsd-client/v5 v5.0.0
	github.com/pkg/errors v0.9.1
	github.com/prometheus/client_golang v1.11.0
	github.com/prometheus/client_model v0.2.0
	github.com/uber-go/tally/v4 v4.0.0
)

require (
	github.com/beorn7/perks v1.0.1 // indirect
	github.com/cespare/xxhash/v2 v2.3.0 // indirect
	github.com/golang/mock v1.6.0 // indirect
	github.com/golang/protobuf v1.4.3 // indirect
	github.com/matttproud/golang_protobuf_extensions v1.0.1 // indirect
	github.com/prometheus/common v0.26.0 // indirect
	github.com/prometheus/procfs v0.6.0 // indirect
	github.com/twmb/murmur3 v1.1.8 // indirect
	go.uber.org/atomic v1.11.0 // indirect
	golang.org/x/sys v0.0.0-20210603081109-ebe580a85c40 // indirect
	google.golang.org/protobuf v1.26.0-rc.1 // indirect
)

replace github.com/uber-go/tally/v4 => /repo
