module verifharness

go 1.20

require (
	github.com/cactus/go-statsd-client/v5 v5.0.0
	github.com/uber-go/tally/v4 v4.0.0
)

require (
	github.com/golang/mock v1.6.0 // indirect
	github.com/twmb/murmur3 v1.1.8 // indirect
	go.uber.org/atomic v1.11.0 // indirect
)

replace github.com/uber-go/tally/v4 => /repo
