#!/usr/bin/env python3
"""Regenerates MANIFEST.json from props.json (one entry per built check)."""
import json, os
V = os.path.dirname(os.path.abspath(__file__))
props = json.load(open(os.path.join(V, "props.json")))
all_ids = [json.loads(l)["id"] for l in open(os.path.join(V, "properties.jsonl"))]
hooks_commits = []
hp = os.path.join(V, "hooks_commits.txt")
if os.path.exists(hp):
    hooks_commits = [l.split()[0] for l in open(hp) if l.strip()]
checks = []
for pid in all_ids:
    if pid not in props or not props[pid].get("claimed", True):
        continue
    c = props[pid]
    checks.append({
        "property_id": pid,
        "quick_cmd": "./check %s --tier quick" % pid,
        "thorough_cmd": "./check %s --tier thorough" % pid,
        "evidence_file": "/verif/evidence/%s.json" % pid,
        "replay_cmd_template": "./check %s --replay {path}" % pid,
        "engine": "coq-proof+correspondence",
        "level_claimed": {"category": "proof", "text": c["level_text"], "design_ref": "DESIGN.md section 6, " + pid},
        "level_note": c.get("level_note", "Trusted: Coq 8.16.1 kernel + vm_compute; hand-written Gallina model; correspondence by differential testing through the Go harness (generator quality bounds it); constants translator; verif hooks." + (" For the lock theorems also the lock-skeleton translator harness/lockx (trusted to over-approximate control flow; its output is re-checked by the verified checker on every run)." if pid in ("C07", "C09") else "")) ,
        "technique": c.get("technique", "Coq proof + model/implementation correspondence check"),
    })
na = [{"property_id": pid, "reason": props.get(pid, {}).get("na_reason", "check under construction in this round (model and theorems exist as prototypes in DESIGN.md appendices); not claimed until its check runs clean")}
      for pid in all_ids if pid not in props or not props[pid].get("claimed", True)]
m = {
    "version": 1,
    "setup_cmd": "./check --setup",
    "hooks": {
        "guard": "verif",
        "enable": "go build -tags verif (the harness module /verif/harness replaces github.com/uber-go/tally/v4 with /repo)",
        "baseline_off_cmd": "cd /repo && GOFLAGS=-mod=mod go test -vet=off -count=1 -timeout 25m ./...",
        "source_commits": hooks_commits,
        "add_only": True,
    },
    "engines": [{
        "name": "coq-proof+correspondence", "path": "/verif/check",
        "serves_properties": [c["property_id"] for c in checks],
        "kind_free_text": "Coq 8.16.1 theorems over executable Gallina models (coq/); a Go harness (harness/vh) drives the real code built from /repo's working tree with -tags verif, evaluates each property's direct predicate, and writes the observed cases as Coq terms that the model re-evaluates inside Coq (vm_compute); a constants translator (harness/constx) regenerates coq/Gen/Params.v on every run and Proof/ParamsOk.v re-proves the side conditions",
    }],
    "checks": checks,
    "not_applicable": na,
    "notes": "Technique family: machine-checked proof in Coq. See DESIGN.md. known_findings.json lists recorded defects; seeded/ holds validated breaking changes used to test the checks.",
}
json.dump(m, open(os.path.join(V, "MANIFEST.json"), "w"), indent=1)
print("MANIFEST.json: %d checks, %d not_applicable" % (len(checks), len(na)))
