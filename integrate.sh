#!/bin/bash
# usage: integrate.sh <agent-name> <Cxx> [<Cyy> ...]
# copies files that exist only in the agent's copy, merges its props.json entries
# for the given ids and appends its new _CoqProject lines.
ag=$1; shift
src=/tmp/ag_$ag/verif
cd $src || exit 1
find . -type f \( -name '*.v' -o -name '*.go' -o -name '*.json' -o -name '*.patch' -o -name '*.md' -o -name '*.txt' \) \
  -not -path './work/*' -not -path './.git/*' -not -path './evidence/*' | while read f; do
  if [ ! -e "/verif/$f" ]; then mkdir -p "/verif/$(dirname $f)"; cp "$f" "/verif/$f"; echo "new: $f"; 
  elif ! cmp -s "$f" "/verif/$f"; then echo "DIFFERS (not copied): $f"; fi
done
python3 - "$src" "$@" <<'PY'
import json,sys
src=sys.argv[1]; ids=sys.argv[2:]
a=json.load(open(src+'/props.json')); m=json.load(open('/verif/props.json'))
for i in ids:
    if i in a: m[i]=a[i]; print('props.json: merged',i)
    else: print('props.json: MISSING',i)
json.dump(m,open('/verif/props.json','w'),indent=1)
mine=[l.rstrip('\n') for l in open('/verif/coq/_CoqProject')]
for l in open(src+'/coq/_CoqProject'):
    l=l.rstrip('\n')
    if l and l not in mine:
        mine.append(l); print('_CoqProject +',l)
open('/verif/coq/_CoqProject','w').write('\n'.join(mine)+'\n')
PY
